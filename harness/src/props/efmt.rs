//! C19 (strftime-style formatting) and the FORMAT part of C13 (pseudo-property C13F: `Format::from_str`,
//! `Format::parse`, `Epoch::from_format_str`, `Epoch::from_str_with_format` are total).
//!
//! The generators build epochs and the texts they aim at with their own calendar arithmetic
//! (`calendar::days_from_1900`, month lengths, names typed here), never with hifitime's.
use crate::codec::*;
use crate::gen::*;
use crate::props::calendar::{days_from_1900, month_len};
use crate::rng::Rng;
use core::str::FromStr;
use hifitime::efmt::{consts, Format, Formatter};
use hifitime::{Duration, Epoch, TimeScale};
use std::fmt::Write as FmtWrite;
use std::io::Write;

const NPD: i128 = 86_400_000_000_000;
const SEC: i128 = 1_000_000_000;
const MIN: i128 = 60 * SEC;

pub const CONSTS: [(&str, Format); 9] = [
    ("ISO8601", consts::ISO8601),
    ("ISO8601_FLEX", consts::ISO8601_FLEX),
    ("RFC3339", consts::RFC3339),
    ("RFC3339_FLEX", consts::RFC3339_FLEX),
    ("ISO8601_DATE", consts::ISO8601_DATE),
    ("ISO8601_ORDINAL", consts::ISO8601_ORDINAL),
    ("RFC2822", consts::RFC2822),
    ("RFC2822_LONG", consts::RFC2822_LONG),
    ("ISO8601_STD", consts::ISO8601_STD),
];

fn const_by_name(n: &str) -> Format {
    CONSTS.iter().find(|(k, _)| *k == n).unwrap_or_else(|| panic!("bad const {n}")).1
}

/// the separator alphabet of the property's probe
const SEPS: &[u8] = b" -/:.,T_|;@#";
const NUMERIC: [char; 7] = ['Y', 'm', 'd', 'H', 'M', 'S', 'f'];
const EXTRA: [char; 7] = ['j', 'A', 'a', 'B', 'b', 'T', 'z'];
const SUPPORTED: [char; 14] = ['Y', 'm', 'd', 'H', 'M', 'S', 'f', 'j', 'A', 'a', 'B', 'b', 'T', 'z'];
/// the three tokens `Format::from_str` knows beyond the fourteen the statement names (audit 3, A2)
const UNNAMED: [char; 3] = ['w', 'y', 'J'];
const SEVENTEEN: [char; 17] = ['Y', 'm', 'd', 'H', 'M', 'S', 'f', 'j', 'A', 'a', 'B', 'b', 'T', 'z', 'w', 'y', 'J'];

const YEARS: [i64; 30] = [
    1, 2, 4, 5, 99, 100, 101, 400, 401, 1582, 1600, 1899, 1900, 1901, 1904, 1971, 1972, 1973, 1980, 1999, 2000, 2001, 2016,
    2017, 2023, 2024, 2100, 3400, 9998, 9999,
];

fn ref_offset_ns(ts: TimeScale) -> i128 {
    match ts {
        TimeScale::ET | TimeScale::TDB => days_from_1900(2000, 1, 1) as i128 * NPD + NPD / 2,
        TimeScale::GPST | TimeScale::QZSST => days_from_1900(1980, 1, 6) as i128 * NPD,
        TimeScale::GST => days_from_1900(1999, 8, 22) as i128 * NPD,
        TimeScale::BDT => days_from_1900(2006, 1, 1) as i128 * NPD,
        _ => 0,
    }
}

fn total_of(y: i64, m: i64, d: i64, tod: i128, ts: TimeScale) -> i128 {
    days_from_1900(y, m, d) as i128 * NPD + tod - ref_offset_ns(ts)
}

fn estr(t: i128, ts: TimeScale) -> String {
    format!("{}:{}", dstr(t), ts2s(ts))
}

fn pick_year(r: &mut Rng, margin: bool) -> i64 {
    let y = match r.below(10) {
        0..=3 => *r.pick(&YEARS),
        4 => r.range_i64(1890, 2110),
        _ => r.range_i64(1, 9999),
    };
    if margin {
        y.clamp(2, 9998)
    } else {
        y
    }
}

/// time of day aimed at the edges that matter here: first/last ns, the first and last 40 s of a day
/// (the TAI weekday differs from the weekday of the date there), whole seconds, anything
fn pick_tod(r: &mut Rng) -> i128 {
    match r.below(16) {
        14 | 15 => super::calendar::tod_field_pattern(r),
        0 | 1 => 0,
        2 | 3 => NPD - 1,
        4 => 1,
        5 => NPD - 1 - *r.pick(&[1i128, 2, 3, 238, 239, 500, 999]),
        6 => (r.below(86400) as i128) * SEC,
        7 => (r.below(41) as i128) * SEC + r.below(SEC as u64) as i128, // first 40 s
        8 => NPD - 1 - ((r.below(41) as i128) * SEC + r.below(SEC as u64) as i128), // last 40 s
        9 => (r.below(86400) as i128) * SEC + *r.pick(&[1i128, 999_999_999, 999_999_998, 500_000_000, 37]),
        10 => NPD / 2 + r.range_i64(-1, 1) as i128,
        _ => r.below(NPD as u64) as i128,
    }
}

/// (year, month, day) aimed at month/year edges
fn pick_date(r: &mut Rng, margin: bool) -> (i64, i64, i64) {
    let y = pick_year(r, margin);
    let m = match r.below(5) {
        0 => *r.pick(&[1i64, 2, 3, 12]),
        1 => 12,
        _ => 1 + r.below(12) as i64,
    };
    let l = month_len(y, m);
    let d = match r.below(5) {
        0 => 1,
        1 | 2 => l,
        _ => 1 + r.below(l as u64) as i64,
    };
    (y, m, d)
}

fn scale(r: &mut Rng) -> TimeScale {
    // UTC and TAI more often than the rest
    match r.below(14) {
        0..=2 => TimeScale::UTC,
        3 | 4 => TimeScale::TAI,
        k => SCALES[(k - 5) as usize],
    }
}

fn epoch_c19(r: &mut Rng, ts: TimeScale, margin: bool) -> String {
    let (y, m, d) = pick_date(r, margin);
    estr(total_of(y, m, d, pick_tod(r), ts), ts)
}

/// offset in whole minutes, -23:59..+23:59, as a total nanosecond count
fn pick_offset(r: &mut Rng) -> i128 {
    let m: i64 = match r.below(8) {
        0 => 0,
        1 => *r.pick(&[-1439i64, 1439, -1, 1, 60, -60, 300, -300, 330, 345, -570, 720, -720]),
        2 => 60 * r.range_i64(-23, 23),
        _ => r.range_i64(-1439, 1439),
    };
    m as i128 * MIN
}

fn pick_sep(r: &mut Rng, wide: bool) -> char {
    if wide && r.chance(1, 10) {
        // any printable ASCII character except '%' (the token introducer) and '?' (the optional marker)
        loop {
            let c = (0x20 + r.below(0x5f) as u8) as char;
            if c != '%' && c != '?' {
                return c;
            }
        }
    }
    *r.pick(SEPS) as char
}

fn push_seps(r: &mut Rng, s: &mut String, wide: bool, bias_one: bool) {
    let k = if bias_one {
        match r.below(20) {
            0..=13 => 1,
            14..=16 => 2,
            _ => 0,
        }
    } else {
        r.below(3)
    };
    for _ in 0..k {
        s.push(pick_sep(r, wide));
    }
}

fn render_format(r: &mut Rng, toks: &[char], wide: bool, bias_one: bool) -> String {
    let mut s = String::new();
    for (i, t) in toks.iter().enumerate() {
        s.push('%');
        s.push(*t);
        if i + 1 < toks.len() {
            push_seps(r, &mut s, wide, bias_one);
        }
    }
    s
}

fn shuffle<T>(r: &mut Rng, v: &mut [T]) {
    for i in (1..v.len()).rev() {
        let j = r.below(i as u64 + 1) as usize;
        v.swap(i, j);
    }
}

/// all seven numeric tokens in a random order plus 0-2 of `j A a B b T z` at random places
fn full_tokens(r: &mut Rng) -> Vec<char> {
    full_tokens_x(r, false)
}

/// the same; with `unnamed` an extra token is one of `w y J` half of the time
fn full_tokens_x(r: &mut Rng, unnamed: bool) -> Vec<char> {
    let mut toks: Vec<char> = NUMERIC.to_vec();
    if r.chance(1, 4) {
        // keep the conventional order now and then
    } else {
        shuffle(r, &mut toks);
    }
    let k = r.below(3);
    for _ in 0..k {
        let t = if unnamed && r.chance(1, 2) { *r.pick(&UNNAMED) } else { *r.pick(&EXTRA) };
        let at = r.below(toks.len() as u64 + 1) as usize;
        toks.insert(at, t);
    }
    toks
}

/// 1..16 tokens of the supported set, repetitions allowed
fn any_tokens(r: &mut Rng) -> Vec<char> {
    any_tokens_x(r, false)
}

/// the same, drawn from all seventeen tokens when `unnamed`
fn any_tokens_x(r: &mut Rng, unnamed: bool) -> Vec<char> {
    let k = match r.below(6) {
        0 => 1,
        1 => 16,
        2 => 15,
        _ => 1 + r.below(16) as usize,
    };
    (0..k).map(|_| if unnamed { *r.pick(&SEVENTEEN) } else { *r.pick(&SUPPORTED) }).collect()
}

/// formats that do not need the Gregorian fields (the second branch of `Formatter::fmt`)
fn nongreg_tokens(r: &mut Rng) -> Vec<char> {
    let k = 1 + r.below(4) as usize;
    (0..k).map(|_| *r.pick(&['j', 'T', 'A', 'a', 'j', 'T', 'w', 'J'])).collect()
}

fn hexfmt(s: &str) -> String {
    str2hex(s)
}

fn boundary_block_c19(out: &mut dyn Write) {
    // every constant on the suite's birthday epoch and on whole-second / sub-second epochs of every scale
    for (name, _) in CONSTS.iter() {
        for ts in SCALES.iter() {
            for (y, m, d, tod) in [
                (2000i64, 2i64, 29i64, (14 * 3600 + 57 * 60 + 29) as i128 * SEC + 37),
                (2015, 2, 7, (11 * 3600 + 22 * 60 + 33) as i128 * SEC),
                (2023, 12, 31, NPD - 1),
                (1, 1, 1, 0),
                (9999, 12, 31, NPD - 1),
            ] {
                writeln!(out, "format_const {} {}", name, estr(total_of(y, m, d, tod, *ts), *ts)).unwrap();
            }
        }
        writeln!(out, "const_debug {}", name).unwrap();
    }
    // every constant with offsets at both ends of the quantifier and across a day / year edge, printed and parsed back
    for (name, _) in CONSTS.iter() {
        for off_min in [-(23 * 60 + 59) as i128, -60, -1, 0, 1, 330, 23 * 60 + 59] {
            for (y, m, d, tod) in [(2015i64, 2i64, 7i64, (11 * 3600 + 22 * 60 + 33) as i128 * SEC + 5), (2023, 12, 31, NPD - SEC), (2024, 1, 1, 0)] {
                let e = estr(total_of(y, m, d, tod, TimeScale::UTC), TimeScale::UTC);
                writeln!(out, "format_const {} {} {}", name, e, dstr(off_min * MIN)).unwrap();
                writeln!(out, "fmt_back_const {} {} {}", name, e, dstr(off_min * MIN)).unwrap();
            }
        }
    }
    // `%w` next to `%A` in the seconds around midnight of every scale (the weekday of the printed date), `%J` next to `%j`
    for ts in SCALES.iter() {
        for (y, m, d) in [(2016i64, 12i64, 31i64), (2017, 1, 1), (1980, 1, 6), (2024, 2, 29)] {
            for tod in [0i128, 9 * SEC, 20 * SEC, 33 * SEC, 40 * SEC, NPD - 40 * SEC, NPD - 33 * SEC, NPD - 20 * SEC, NPD - 9 * SEC, NPD - 1] {
                let e = estr(total_of(y, m, d, tod, *ts), *ts);
                writeln!(out, "format {} {}", hexfmt("%A %w %a"), e).unwrap();
                writeln!(out, "format {} {}", hexfmt("%w"), e).unwrap();
                writeln!(out, "format {} {}", hexfmt("%j %J"), e).unwrap();
                writeln!(out, "format {} {}", hexfmt("%Y %y"), e).unwrap();
            }
        }
    }
    // every token of the seventeen alone and in a pair with a separator, on fixed epochs
    for t in SEVENTEEN.iter() {
        for ts in [TimeScale::UTC, TimeScale::TAI, TimeScale::TDB, TimeScale::GPST] {
            let e = estr(total_of(2000, 2, 29, (14 * 3600 + 57 * 60 + 29) as i128 * SEC + 37, ts), ts);
            writeln!(out, "format {} {}", hexfmt(&format!("%{}", t)), e).unwrap();
            writeln!(out, "format {} {}", hexfmt(&format!("%{}-%T", t)), e).unwrap();
            writeln!(out, "format {} {}", hexfmt(&format!("%Y %{}", t)), e).unwrap();
        }
        writeln!(out, "fmt_parse {}", hexfmt(&format!("%{}", t))).unwrap();
    }
    // day of year: midnight and last nanosecond of every day of a leap and a common year
    for y in [2023i64, 2024] {
        let n = if y == 2024 { 366 } else { 365 };
        for k in 0..n {
            let base = days_from_1900(y, 1, 1) as i128 + k;
            for tod in [0i128, NPD - 1] {
                writeln!(out, "format {} {}", hexfmt("%Y-%j"), estr(base * NPD + tod, TimeScale::UTC)).unwrap();
            }
        }
    }
    for ts in SCALES.iter() {
        for (y, m, d) in [(2023i64, 12i64, 31i64), (2024, 12, 31), (2024, 2, 29), (2024, 1, 1), (1, 1, 1), (9999, 12, 31)] {
            for tod in [0i128, 1, NPD - 2, NPD - 1] {
                let e = estr(total_of(y, m, d, tod, *ts), *ts);
                writeln!(out, "format {} {}", hexfmt("%Y-%j"), e).unwrap();
                writeln!(out, "format {} {}", hexfmt("%j-%T"), e).unwrap();
                writeln!(out, "iso_display {}", e).unwrap();
                writeln!(out, "to_isoformat {}", e).unwrap();
            }
        }
    }
}

pub fn inputs_c19(r: &mut Rng, n: usize, _tier: &str, out: &mut dyn Write) {
    boundary_block_c19(out);
    for _ in 0..n {
        let ts = scale(r);
        match r.below(40) {
            // ---- output per token: full-date formats, arbitrary formats, formats without Gregorian tokens
            0..=7 => {
                let unnamed = r.chance(1, 3);
                let toks = full_tokens_x(r, unnamed);
                let f = render_format(r, &toks, true, false);
                emit_format(r, out, &f, ts);
            }
            13 => {
                // size extremes: 14-16 tokens drawn mostly from the widest fields (%f nine digits, %A / %B up to nine
                // letters, %z six characters), two separators after each -- the longest texts the formatter can print
                // (seeded change C19-9: a 144-byte stack buffer, i.e. 16 fields of nine characters WITHOUT separators)
                let k = 14 + r.below(3) as usize;
                let toks: Vec<char> = (0..k).map(|_| *r.pick(&['f', 'f', 'f', 'A', 'B', 'A', 'B', 'z', 'T', 'Y', 'j', 'H'])).collect();
                let mut f = String::new();
                for (i, t) in toks.iter().enumerate() {
                    f.push('%');
                    f.push(*t);
                    if i + 1 < toks.len() {
                        f.push(pick_sep(r, false));
                        f.push(pick_sep(r, false));
                    }
                }
                // a Wednesday in September (both names have nine letters) half of the time
                if r.chance(1, 2) {
                    let y = 1950 + r.below(150) as i64;
                    let mut d = 1;
                    while d < 30 && s2e(&estr(total_of(y, 9, d, 0, TimeScale::TAI), TimeScale::TAI)).weekday() != hifitime::Weekday::Wednesday {
                        d += 1;
                    }
                    let e = estr(total_of(y, 9, d, pick_tod(r), ts), ts);
                    if f.contains("%z") {
                        writeln!(out, "format {} {} {}", hexfmt(&f), e, dstr(pick_offset(r))).unwrap();
                    } else {
                        writeln!(out, "format {} {}", hexfmt(&f), e).unwrap();
                    }
                } else {
                    emit_format(r, out, &f, ts);
                }
            }
            8..=12 => {
                let unnamed = r.chance(1, 3);
                let toks = any_tokens_x(r, unnamed);
                let f = render_format(r, &toks, true, false);
                emit_format(r, out, &f, ts);
            }
            14 | 15 => {
                let toks = nongreg_tokens(r);
                let f = render_format(r, &toks, false, false);
                emit_format(r, out, &f, ts);
            }
            16 => {
                // through Formatter::to_time_scale
                let toks = full_tokens(r);
                let f = render_format(r, &toks, false, true);
                let to = scale(r);
                writeln!(out, "format_ts {} {} {}", hexfmt(&f), epoch_c19(r, ts, true), ts2s(to)).unwrap();
            }
            // ---- the predefined constants
            17..=21 => {
                let (name, _) = *r.pick(&CONSTS);
                if (name.starts_with("RFC3339") && r.chance(3, 4)) || r.chance(1, 4) {
                    writeln!(out, "format_const {} {} {}", name, epoch_c19(r, ts, true), dstr(pick_offset(r))).unwrap();
                } else {
                    writeln!(out, "format_const {} {}", name, epoch_c19(r, ts, false)).unwrap();
                }
            }
            22 => writeln!(out, "iso_display {}", epoch_c19(r, ts, false)).unwrap(),
            23 => writeln!(out, "to_isoformat {}", epoch_c19(r, ts, false)).unwrap(),
            // ---- Format::from_str
            24 | 25 => {
                let unnamed = r.chance(1, 3);
                let toks = if r.chance(1, 2) { any_tokens_x(r, unnamed) } else { full_tokens_x(r, unnamed) };
                let mut f = render_format(r, &toks, true, false);
                if r.chance(1, 6) {
                    // optional markers as the predefined constants use them
                    f = f.replace("%f", "%f?").replace("%T", "%T?");
                }
                writeln!(out, "fmt_parse {}", hexfmt(&f)).unwrap();
            }
            // ---- parse back of formats that LOOK like a well-known layout with fields of equal width exchanged (the ISO 8601 /
            // RFC 3339 skeletons with month<->day or hour/minute/second permuted, the date-only and ordinal forms): a parser
            // that recognises the layout instead of following the format reads another instant (seeded change C19-10: a
            // from_gregorian_str fast path for formats starting with `%Y-`)
            26 | 27 => {
                let skel = *r.pick(&["%Y-%m-%dT%H:%M:%S.%f", "%Y-%m-%dT%H:%M:%S.%f %T", "%Y-%m-%d %H:%M:%S.%f", "%Y-%m-%dT%H:%M:%S", "%Y-%m-%dT%H:%M:%S%z",
                    "%Y-%m-%dT%H:%M:%S.%f%z", "%Y-%m-%d %H:%M:%S", "%Y-%m-%dT%H:%M:%S.%f UTC", "%Y-%m-%dT%H:%M:%S %f", "%Y-%m-%dT%H:%M:%SZ%f",
                    "%Y-%m-%d %H:%M:%S %f %T", "%Y/%m/%dT%H:%M:%S.%f", "%Y-%m-%dT%H.%M.%S.%f"]);
                let mut two = vec!['m', 'd', 'H', 'M', 'S'];
                match r.below(6) {
                    4 | 5 => {} // the ISO token order itself, with the skeleton's own (possibly unusual) separators
                    0 => two.swap(0, 1),
                    1 => { let (i, j) = (2 + r.below(3) as usize, 2 + r.below(3) as usize); two.swap(i, j) }
                    2 => { two.swap(0, 1); two.swap(2, 4) }
                    _ => shuffle(r, &mut two),
                }
                let mut f = String::new();
                let mut k = 0;
                let cs: Vec<char> = skel.chars().collect();
                let mut i = 0;
                while i < cs.len() {
                    if cs[i] == '%' && i + 1 < cs.len() && "mdHMS".contains(cs[i + 1]) {
                        f.push('%');
                        f.push(two[k]);
                        k += 1;
                        i += 2;
                    } else {
                        f.push(cs[i]);
                        i += 1;
                    }
                }
                if f.contains("%z") {
                    writeln!(out, "fmt_back {} {} {}", hexfmt(&f), epoch_c19(r, TimeScale::UTC, true), dstr(pick_offset(r))).unwrap();
                } else {
                    writeln!(out, "fmt_back {} {}", hexfmt(&f), epoch_c19(r, TimeScale::UTC, false)).unwrap();
                }
            }
            // ---- parse back (UTC epochs; a few in other scales, where only "no panic" is judged)
            28..=37 => {
                // (one format in eight also carries `%w`, `%y` or `%J`: outside the parse-back clause, tied to the model)
                let unnamed = r.chance(1, 8);
                let toks = full_tokens_x(r, unnamed);
                let f = render_format(r, &toks, false, true);
                let ts2 = if r.chance(1, 12) { ts } else { TimeScale::UTC };
                if f.contains("%z") && r.chance(2, 3) {
                    writeln!(out, "fmt_back {} {} {}", hexfmt(&f), epoch_c19(r, ts2, true), dstr(pick_offset(r))).unwrap();
                } else {
                    writeln!(out, "fmt_back {} {}", hexfmt(&f), epoch_c19(r, ts2, false)).unwrap();
                }
            }
            38 if r.chance(1, 2) => {
                // the epoch's scale printed by a final %T: any scale (the text determines the epoch)
                let mut toks: Vec<char> = NUMERIC.to_vec();
                shuffle(r, &mut toks);
                let mut f = String::new();
                for t in toks.iter() {
                    f.push('%');
                    f.push(*t);
                    f.push(pick_sep(r, false));
                }
                f.push_str("%T");
                writeln!(out, "fmt_back {} {}", hexfmt(&f), epoch_c19(r, ts, false)).unwrap();
            }
            38 => {
                // numeric tokens only (and %j), at least one separator after each: the class that parses back
                let mut toks: Vec<char> = NUMERIC.to_vec();
                shuffle(r, &mut toks);
                if r.chance(1, 3) {
                    let at = r.below(toks.len() as u64 + 1) as usize;
                    toks.insert(at, 'j');
                }
                let mut f = String::new();
                for (i, t) in toks.iter().enumerate() {
                    f.push('%');
                    f.push(*t);
                    if i + 1 < toks.len() {
                        for _ in 0..(1 + r.below(2)) {
                            f.push(pick_sep(r, false));
                        }
                    }
                }
                writeln!(out, "fmt_back {} {}", hexfmt(&f), epoch_c19(r, TimeScale::UTC, false)).unwrap();
            }
            _ => {
                // the constants with the quantifier's time-zone offsets as well: always printed by RFC3339 (`%z`);
                // the other constants cannot carry an offset in their text (judged outside the clause, tied to the model)
                let (name, _) = *r.pick(&CONSTS);
                if (name.starts_with("RFC3339") && r.chance(3, 4)) || r.chance(1, 6) {
                    writeln!(out, "fmt_back_const {} {} {}", name, epoch_c19(r, TimeScale::UTC, true), dstr(pick_offset(r))).unwrap();
                } else {
                    writeln!(out, "fmt_back_const {} {}", name, epoch_c19(r, TimeScale::UTC, false)).unwrap();
                }
            }
        }
    }
}

fn emit_format(r: &mut Rng, out: &mut dyn Write, f: &str, ts: TimeScale) {
    if (f.contains("%z") && r.chance(3, 4)) || r.chance(1, 10) {
        writeln!(out, "format {} {} {}", hexfmt(f), epoch_c19(r, ts, true), dstr(pick_offset(r))).unwrap();
    } else {
        writeln!(out, "format {} {}", hexfmt(f), epoch_c19(r, ts, false)).unwrap();
    }
}

// ------------------------------------------------------------------------------------------ C13F

const WD_LONG: [&str; 7] = ["Monday", "Tuesday", "Wednesday", "Thursday", "Friday", "Saturday", "Sunday"];
const WD_SHORT: [&str; 7] = ["Mon", "Tue", "Wed", "Thu", "Fri", "Sat", "Sun"];
const MO_LONG: [&str; 12] = [
    "January", "February", "March", "April", "May", "June", "July", "August", "September", "October", "November", "December",
];
const MO_SHORT: [&str; 12] = ["Jan", "Feb", "Mar", "Apr", "May", "Jun", "Jul", "Aug", "Sep", "Oct", "Nov", "Dec"];

struct Fields {
    y: i64,
    m: i64,
    d: i64,
    h: i64,
    mi: i64,
    s: i64,
    ns: i64,
    ts: TimeScale,
    off_min: i64,
    /// day of year / weekday shift written instead of the true ones (out-of-range texts)
    doy_o: Option<i64>,
    wd_shift: usize,
}

fn pick_fields(r: &mut Rng) -> Fields {
    let (y, m, d) = pick_date(r, false);
    let t = pick_tod(r);
    let ns = (t % SEC) as i64;
    let s = t / SEC;
    Fields {
        y: if r.chance(1, 20) { *r.pick(&[0i64, -1, 10000, 12345, 2147483647, -2147483648, 5885417, 5885416, -5881616, 99999999999]) } else { y },
        m,
        d,
        h: (s / 3600) as i64,
        mi: ((s / 60) % 60) as i64,
        s: (s % 60) as i64,
        ns,
        ts: scale(r),
        off_min: (pick_offset(r) / MIN) as i64,
        doy_o: None,
        wd_shift: 0,
    }
}

/// push one or two fields out of range (or onto the edge of the range): the texts C13 wants rejected
fn spoil(r: &mut Rng, f: &mut Fields) {
    f.y = f.y.clamp(1, 9999);
    let k = if r.chance(1, 5) { 2 } else { 1 };
    for _ in 0..k {
        match r.below(15) {
            0 => f.m = *r.pick(&[13i64, 14, 0, 20, 99]),
            1 => f.d = month_len(f.y, f.m.clamp(1, 12)) + 1,
            2 => f.d = *r.pick(&[0i64, 32, 33, 99]),
            3 => f.h = *r.pick(&[24i64, 25, 30, 99]),
            4 => f.mi = *r.pick(&[60i64, 61, 99]),
            5 => f.s = *r.pick(&[61i64, 62, 99]),
            6 => f.s = 60,
            7 => {
                // a leap second where there is one, or the same time on a day without
                f.h = 23;
                f.mi = 59;
                f.s = 60;
                if r.chance(1, 2) {
                    let (y, m, d) = *r.pick(&[(2016i64, 12i64, 31i64), (2015, 6, 30), (1998, 12, 31), (2012, 6, 30)]);
                    f.y = y;
                    f.m = m;
                    f.d = d;
                }
            }
            8 => f.doy_o = Some(*r.pick(&[0i64, 366, 367, 400, 999])),
            9 => {
                // the last day of the year and the one after it
                let leap = month_len(f.y, 2) == 29;
                f.doy_o = Some(if leap { *r.pick(&[366i64, 367]) } else { *r.pick(&[365i64, 366]) });
            }
            10 => f.wd_shift = 1 + r.below(6) as usize,
            11 | 12 => {
                // a day of year of that year which is NOT the written month and day (next to it, or anywhere)
                let y = f.y.clamp(1, 9999);
                let len = if month_len(y, 2) == 29 { 366 } else { 365 };
                let own = days_from_1900(y, f.m.clamp(1, 12), f.d.clamp(1, 28)) - days_from_1900(y, 1, 1) + 1;
                let other = if r.chance(1, 2) { own + *r.pick(&[-1i64, 1, 2, -31, 31]) } else { 1 + r.below(len as u64) as i64 };
                f.doy_o = Some((other - 1).rem_euclid(len) + 1);
            }
            13 => {
                // 23:59:60 with a day of year: on a leap second day (valid), or the day before / after it
                f.h = 23;
                f.mi = 59;
                f.s = 60;
                let (y, m, d) = *r.pick(&[(2016i64, 12i64, 31i64), (2015, 6, 30), (1998, 12, 31), (2012, 6, 30)]);
                f.y = y;
                f.m = m;
                f.d = d;
                let own = days_from_1900(y, m, d) - days_from_1900(y, 1, 1) + 1;
                f.doy_o = Some(own + *r.pick(&[0i64, 0, -1, -2]));
            }
            _ => {
                // 29-31 February
                f.m = 2;
                f.d = 29 + r.below(3) as i64;
            }
        }
    }
}

/// the text a token stands for, rendered by the generator itself
fn render_token(r: &mut Rng, t: char, f: &Fields) -> String {
    let doy = f.doy_o.unwrap_or(days_from_1900(f.y.clamp(1, 9999), f.m, f.d) - days_from_1900(f.y.clamp(1, 9999), 1, 1) + 1);
    let wd = (days_from_1900(f.y.clamp(1, 9999), f.m, f.d).rem_euclid(7) as usize + f.wd_shift) % 7;
    match t {
        'Y' => format!("{:04}", f.y),
        'y' => match r.below(4) {
            0 => format!("{}", *r.pick(&[2147483647i64, 2147481648, 2147481647, -2147483648, 99])),
            _ => format!("{:02}", f.y.rem_euclid(100)),
        },
        'm' => format!("{:02}", f.m),
        'd' => format!("{:02}", f.d),
        'H' => format!("{:02}", f.h),
        'M' => format!("{:02}", f.mi),
        'S' => format!("{:02}", f.s),
        'f' => match r.below(8) {
            0 => format!("{}", f.ns),
            1 => format!("{:010}", f.ns),
            2 => format!("{:03}", f.ns / 1_000_000),
            3 => "0".to_string(),
            _ => format!("{:09}", f.ns),
        },
        'j' => format!("{:03}", doy),
        'J' => match r.below(4) {
            0 => format!("{}", doy),
            1 => r.pick(&["nan", "inf", "-inf", "1e400", "1e9", "-5", "366.999999", "0.5", "NaN", "infinity"]).to_string(),
            _ => format!("{}.{}", doy, r.below(1000000)),
        },
        'A' => WD_LONG[wd].to_string(),
        'a' => WD_SHORT[wd].to_string(),
        'B' => MO_LONG[(f.m.clamp(1, 12) - 1) as usize].to_string(),
        'b' => MO_SHORT[(f.m.clamp(1, 12) - 1) as usize].to_string(),
        'T' => ts2s(f.ts).to_string(),
        'w' => format!("{}", (wd + 1) % 7),
        'z' => format!("{}{:02}:{:02}", if f.off_min < 0 { '-' } else { '+' }, f.off_min.abs() / 60, f.off_min.abs() % 60),
        _ => "?".to_string(),
    }
}

/// a format (as (token, separators) items) and an input text that matches it
fn matching_pair(r: &mut Rng, toks: &[char], wide: bool) -> (String, String) {
    let f = pick_fields(r);
    let mut fmt = String::new();
    let mut inp = String::new();
    for (i, t) in toks.iter().enumerate() {
        fmt.push('%');
        fmt.push(*t);
        inp.push_str(&render_token(r, *t, &f));
        if i + 1 < toks.len() || r.chance(1, 12) {
            let mut seps = String::new();
            push_seps(r, &mut seps, wide, true);
            fmt.push_str(&seps);
            inp.push_str(&seps);
        }
    }
    (fmt, inp)
}

/// the text of `fields` for a format string (tokens `%X` and separators taken literally)
fn render_for(r: &mut Rng, fmt: &str, f: &Fields) -> String {
    let mut out = String::new();
    let mut it = fmt.chars().peekable();
    while let Some(c) = it.next() {
        if c == '%' {
            if let Some(t) = it.next() {
                out.push_str(&render_token(r, t, f));
            }
        } else if c != '?' {
            out.push(c);
        }
    }
    out
}

const CONST_STRINGS: [(&str, &str); 9] = [
    ("ISO8601", "%Y-%m-%dT%H:%M:%S.%f %T"),
    ("ISO8601_FLEX", "%Y-%m-%dT%H:%M:%S.%f %T"),
    ("RFC3339", "%Y-%m-%dT%H:%M:%S.%f%z"),
    ("RFC3339_FLEX", "%Y-%m-%dT%H:%M:%S.%f%z"),
    ("ISO8601_DATE", "%Y-%m-%d"),
    ("ISO8601_ORDINAL", "%Y-%j"),
    ("RFC2822", "%a, %d %b %Y %H:%M:%S"),
    ("RFC2822_LONG", "%A, %d %B %Y %H:%M:%S"),
    ("ISO8601_STD", "%Y-%m-%dT%H:%M:%S.%f"),
];

/// a readable format (separators of the probe alphabet, at least one after each token) and a text that
/// matches it with valid or out-of-range fields: `%f` always nine digits, `%j` three
fn range_pair(r: &mut Rng, spoiled: bool) -> (String, String) {
    let mut toks: Vec<char> = match r.below(10) {
        0 => vec!['Y', 'm', 'd'],
        1 => vec!['Y', 'j'],
        2 => vec!['Y', 'j', 'H', 'M', 'S'],
        3 => vec!['A', 'd', 'B', 'Y', 'H', 'M', 'S'],
        // a day of year next to a month and / or a day of the month, a weekday, a time of day
        4 => vec!['Y', 'm', 'd', 'j'],
        5 => vec!['Y', 'j', *r.pick(&['m', 'd', 'B', 'b'])],
        6 => vec!['a', 'Y', 'j', 'H', 'M', 'S'],
        7 => vec!['Y', 'j', 'm', 'd', 'H', 'M', 'S', 'A'],
        _ => full_tokens(r),
    };
    if r.chance(1, 4) {
        shuffle(r, &mut toks);
    }
    let mut fmt = String::new();
    for (i, t) in toks.iter().enumerate() {
        fmt.push('%');
        fmt.push(*t);
        if i + 1 < toks.len() {
            fmt.push(*r.pick(&[' ', '-', '/', ':', '.', ',', '_', '|', ';', '@', '#']));
            if r.chance(1, 6) {
                fmt.push(' ');
            }
        }
    }
    let mut f = pick_fields(r);
    f.y = f.y.clamp(1, 9999);
    if spoiled {
        spoil(r, &mut f);
    }
    // now and then the LAST field is written without its leading zeros (a final field of one character)
    let short_last = r.chance(1, 8);
    let mut text = String::new();
    let mut it = fmt.chars().peekable();
    while let Some(c) = it.next() {
        if c == '%' {
            let t = it.next().unwrap();
            let last = it.peek().is_none();
            text.push_str(&match t {
                'f' => format!("{:09}", f.ns),
                'm' | 'd' | 'H' | 'M' | 'S' | 'j' if last && short_last => {
                    let full = render_token(r, t, &f);
                    let short = full.trim_start_matches('0');
                    if short.is_empty() { "0".to_string() } else { short.to_string() }
                }
                _ => render_token(r, t, &f),
            });
        } else {
            text.push(c);
        }
    }
    (fmt, text)
}

const ODD_CHARS: [&str; 24] = [
    "é", "١", "٣", "²", "½", "Ⅷ", "\u{3000}", "\u{a0}", "\u{2003}", "日", "𝟙", "😀", "Z", "z", "T", "%", "?", "+", "-", ":", ".", " ", "0", "9",
];

fn mutate(r: &mut Rng, s: &str) -> String {
    let mut cs: Vec<char> = s.chars().collect();
    let k = 1 + r.below(3);
    for _ in 0..k {
        let pos = if cs.is_empty() { 0 } else { r.below(cs.len() as u64 + 1) as usize };
        match r.below(8) {
            0 if !cs.is_empty() => {
                cs.remove(pos.min(cs.len() - 1));
            }
            1 | 2 => {
                let ins: Vec<char> = r.pick(&ODD_CHARS).chars().collect();
                for (j, c) in ins.into_iter().enumerate() {
                    cs.insert((pos + j).min(cs.len()), c);
                }
            }
            3 if !cs.is_empty() => {
                let p = pos.min(cs.len() - 1);
                cs[p] = r.pick(&ODD_CHARS).chars().next().unwrap();
            }
            4 => cs.truncate(pos),
            5 => {
                // a long digit run
                let run = *r.pick(&["0000000000", "99999999999", "2147483648", "2147483647", "1000000000", "123456789012345678901"]);
                for (j, c) in run.chars().enumerate() {
                    cs.insert((pos + j).min(cs.len()), c);
                }
            }
            6 if !cs.is_empty() => {
                // duplicate a character
                let p = pos.min(cs.len() - 1);
                let c = cs[p];
                cs.insert(p, c);
            }
            _ => {
                let c = (0x20 + r.below(0x5f) as u8) as char;
                cs.insert(pos.min(cs.len()), c);
            }
        }
    }
    cs.into_iter().collect()
}

fn c13f_tokens(r: &mut Rng) -> Vec<char> {
    match r.below(12) {
        0..=3 => full_tokens(r),
        4 | 5 => any_tokens(r),
        6 => {
            // sixteen or seventeen tokens
            let k = 16 + r.below(2) as usize;
            (0..k).map(|_| *r.pick(&SUPPORTED)).collect()
        }
        7 => {
            // unsupported tokens mixed in
            let mut t = if r.chance(1, 2) { full_tokens(r) } else { any_tokens(r) };
            let at = r.below(t.len() as u64 + 1) as usize;
            t.insert(at.min(t.len()), *r.pick(&['w', 'y', 'J']));
            t.truncate(17);
            t
        }
        8 => vec![*r.pick(&['w', 'y', 'J', 'Y', 'z', 'T', 'A', 'f', 'j'])],
        9 => {
            let k = 1 + r.below(3) as usize;
            (0..k).map(|_| *r.pick(&['w', 'y', 'J', 'Y', 'j'])).collect()
        }
        10 => {
            // %z early
            let mut t = full_tokens(r);
            t.insert(r.below(3) as usize, 'z');
            t
        }
        _ => nongreg_tokens(r),
    }
}

fn boundary_block_c13f(out: &mut dyn Write) {
    let lit = |out: &mut dyn Write, f: &str, s: &str| {
        writeln!(out, "p_fmtparse {} {}", hexfmt(f), str2hex(s)).unwrap();
        writeln!(out, "p_fmtstr {} {}", str2hex(s), hexfmt(f)).unwrap();
    };
    for f in ["", "%", "%%", "%Y", "%Y%", "%q", "%é", "é", "%Y-%m-%d", "%Y?", "%Y??", "%?", "% Y", "%Yabc%m", "%w", "%y", "%J"] {
        writeln!(out, "p_format {}", hexfmt(f)).unwrap();
    }
    // full capacity: sixteen tokens (every slot of the item array used), each supported token in the LAST slot, the text
    // parsing through all sixteen fields and then ending, or going on with a blank, a letter, a digit, a sign, `Z`, a
    // multi-byte character, or a digit INSIDE the last field (seeded changes C13-3, C13-7, C13-8: look-aheads and sentinel
    // slots past the last item)
    for (tok, text) in [("%Y", "2017"), ("%m", "01"), ("%d", "14"), ("%H", "11"), ("%M", "22"), ("%S", "33"), ("%f", "123456789"), ("%j", "014"),
        ("%A", "Saturday"), ("%a", "Sat"), ("%B", "January"), ("%b", "Jan"), ("%T", "UTC"), ("%z", "+00:00")] {
        for sep in [" ", ""] {
            let f = format!("{}{}", format!("%d{}", if sep.is_empty() { " " } else { sep }).repeat(15), tok);
            let base = format!("{}{}", "14 ".repeat(15), text);
            for tail in ["", " ", "x", "7", "2017", "-", "Z", "\u{e9}", " 7"] {
                let tail = if tail == "\u{e9}" { "\u{e9}".replace("\u{e9}", "é") } else { tail.to_string() };
                lit(out, &f, &format!("{}{}", base, tail));
            }
            let mid = text.len() / 2;
            lit(out, &f, &format!("{}{}7{}", "14 ".repeat(15), &text[..mid], &text[mid..]));
        }
    }
    // field WIDTHS at the wrap-around points of a narrow width counter: each numeric field of a full date-time written with
    // 247..266 and 503..522 characters (zero padded, so the value still fits), and 9..12 (seeded change C13-9: the width of
    // the %f field passed on `as u8`, so a 257-digit field counts as one digit and the scaling multiplies by 10^8)
    {
        let fields = [("%Y", "2017"), ("%m", "01"), ("%d", "14"), ("%H", "00"), ("%M", "31"), ("%S", "55"), ("%f", "999999999")];
        let fmt = "%Y-%m-%dT%H:%M:%S.%f";
        let seps = ["-", "-", "T", ":", ":", ".", ""];
        for (k, (_, val)) in fields.iter().enumerate() {
            for w in (9usize..=12).chain(247..=266).chain(503..=522).chain([65_535usize, 65_536, 65_537]) {
                if w > 600 && k != 6 && k != 0 {
                    continue; // the very long ones only for the year and the sub-second field
                }
                let mut text = String::new();
                for (j, (_, v)) in fields.iter().enumerate() {
                    if j == k {
                        text.push_str(&"0".repeat(w.saturating_sub(val.len())));
                    }
                    text.push_str(v);
                    text.push_str(seps[j]);
                }
                lit(out, fmt, &text);
            }
        }
    }
    lit(out, "%Y-%m-%d", "2015-02-07");
    lit(out, "%Y-%m-%d", "");
    lit(out, "%Y-%m-%d", "   ");
    lit(out, "", "2015-02-07");
    lit(out, "%z%Y-%m-%d", "+05:002015-02-07");
    lit(out, "%z %Y-%m-%d", "+05:00 2015-02-07");
    lit(out, "%w %Y-%m-%d", "6 2015-02-07");
    lit(out, "%w", "6");
    lit(out, "%y-%m-%d", "15-02-07");
    lit(out, "%y-%m-%d", "2147483647-02-07");
    lit(out, "%J %Y", "38.5 2015");
    lit(out, "%Y %J", "2015 38.5");
    lit(out, "%Y-%j", "2015-038");
    lit(out, "%Y-%j", "9999999-038");
    lit(out, "%Y-%j", "2147483647-001");
    lit(out, "%Y-%j", "-2147483648-001");
    lit(out, "%Y-%m-%d %H:%M", "2147483647-12-31 23:59");
    lit(out, "%Y-%m-%dT%H:%M:%S.%f", "2015-02-07T11:22:33.0000000000");
    lit(out, "%Y-%m-%dT%H:%M:%S.%f", "2015-02-07T11:22:33.1234567891");
    lit(out, "%Y-%m-%dT%H:%M:%S.%f", "2015-02-07T11:22:33.12345678912345");
    lit(out, "%Y-%m-%d", "2015-02-07é");
    lit(out, "%Y-%m-%d", "é2015-02-07");
    lit(out, "%Y-%m-%d %T", "2015-02-07 é");
    lit(out, "%Y-%m-%d %T", "2015é02-07 TAI");
    lit(out, "%A, %d %B %Y", "Saturday, 07 February 2015");
    lit(out, "%A", "Saturday");
    lit(out, "%a", "Sat");
    let sixteen = "%Y-%m-%d %H:%M:%S.%f %Y-%m-%d %H:%M:%S.%f %Y-%m";
    lit(out, sixteen, "2015-02-07 11:22:33.000000001 2015-02-07 11:22:33.000000001 2015-02");
    lit(out, sixteen, "2015-02-07 11:22:33.000000001 2015-02-07 11:22:33.000000001 2015-02 ");
    lit(out, sixteen, "2015-02-07 11:22:33.000000001 2015-02-07 11:22:33.000000001 2015-02x");
    lit(out, &format!("{}-%d", sixteen), "2015-02-07 11:22:33.000000001 2015-02-07 11:22:33.000000001 2015-02-07");
    for (name, _) in CONSTS.iter() {
        for s in [
            "2015-02-07T11:22:33.0 UTC", "2015-02-07T11:22:33", "2018-02-13T23:08:32Z", "2018-02-13T23:08:32.123Z",
            "1994-11-05T08:15:30-05:00", "1994-11-05T08:15:30.5+05:30", "2015-038", "Sat, 07 Feb 2015 11:22:33",
            "Saturday, 07 February 2015 11:22:33", "2015-02-07", "", "é", "2015-02-07T11:22:33.0 TAIé",
        ] {
            writeln!(out, "p_constparse {} {}", name, str2hex(s)).unwrap();
        }
    }
}

pub fn inputs_c13f(r: &mut Rng, n: usize, _tier: &str, out: &mut dyn Write) {
    boundary_block_c13f(out);
    for _ in 0..n {
        if r.chance(1, 6) {
            // well-formed texts with fields in and out of range (C13: rejected, never another date)
            let spoiled = r.chance(3, 4);
            if r.chance(1, 4) {
                let (name, fs) = *r.pick(&CONST_STRINGS);
                let mut fl = pick_fields(r);
                fl.y = fl.y.clamp(1, 9999);
                if spoiled {
                    spoil(r, &mut fl);
                }
                let text = render_for(r, fs, &fl);
                writeln!(out, "p_constparse {} {}", name, str2hex(&text)).unwrap();
            } else {
                let (f, s) = range_pair(r, spoiled);
                if r.chance(1, 3) {
                    writeln!(out, "p_fmtstr {} {}", str2hex(&s), hexfmt(&f)).unwrap();
                } else {
                    writeln!(out, "p_fmtparse {} {}", hexfmt(&f), str2hex(&s)).unwrap();
                }
            }
            continue;
        }
        let toks = c13f_tokens(r);
        let wide = r.chance(1, 3);
        let (mut f, mut s) = matching_pair(r, &toks, wide);
        match r.below(10) {
            0 | 1 => {}                                  // valid pair
            2 | 3 | 4 => s = mutate(r, &s),              // mutated input
            5 => f = mutate(r, &f),                      // mutated format
            6 => {
                s = mutate(r, &s);
                f = mutate(r, &f);
            }
            7 => {
                // input rendered for another format
                let t2 = c13f_tokens(r);
                let (_, s2) = matching_pair(r, &t2, false);
                s = s2;
            }
            8 => {
                // surrounding white space (trimmed by the parser), ASCII and not
                let ws = *r.pick(&[" ", "\t", "\u{3000}", "\u{a0}", "\n", "\u{2003} "]);
                s = format!("{}{}{}", ws, s, if r.chance(1, 2) { ws } else { "" });
            }
            _ => {
                // optional markers
                f = f.replace("%f", "%f?").replace("%T", "%T?");
            }
        }
        match r.below(8) {
            0 => writeln!(out, "p_format {}", hexfmt(&f)).unwrap(),
            1 | 2 => writeln!(out, "p_fmtstr {} {}", str2hex(&s), hexfmt(&f)).unwrap(),
            3 => {
                let (name, _) = *r.pick(&CONSTS);
                writeln!(out, "p_constparse {} {}", name, str2hex(&s)).unwrap()
            }
            _ => writeln!(out, "p_fmtparse {} {}", hexfmt(&f), str2hex(&s)).unwrap(),
        }
    }
}

// ------------------------------------------------------------------------------------------ exec

fn fmt_to_string(f: &Formatter) -> Result<String, std::fmt::Error> {
    let mut s = String::new();
    write!(s, "{}", f)?;
    Ok(s)
}

fn formatter_for(e: Epoch, fmt: Format, off: Option<Duration>) -> Formatter {
    match off {
        Some(d) => Formatter::with_timezone(e, d, fmt),
        None => Formatter::new(e, fmt),
    }
}

fn res_text(r: Result<String, std::fmt::Error>) -> String {
    match r {
        Ok(s) => format!("ok {}", str2hex(&s)),
        Err(_) => "err".to_string(),
    }
}

fn res_e(r: Result<Epoch, hifitime::HifitimeError>) -> String {
    match r {
        Ok(e) => format!("ok {}", e2s(e)),
        Err(_) => "err".to_string(),
    }
}

pub fn exec(op: &str, a: &[&str]) -> Option<String> {
    match op {
        // ---- C19
        "fmt_parse" | "p_format" => Some(match Format::from_str(&hex2str(a[0])) {
            Ok(f) => format!("ok {}", str2hex(&format!("{:?}", f))),
            Err(_) => "err".to_string(),
        }),
        "const_debug" => Some(format!("ok {}", str2hex(&format!("{:?}", const_by_name(a[0]))))),
        "format" => {
            let fmt = match Format::from_str(&hex2str(a[0])) {
                Ok(f) => f,
                Err(_) => return Some("err".to_string()),
            };
            let off = a.get(2).map(|d| s2d(d));
            let text = fmt_to_string(&formatter_for(s2e(a[1]), fmt, off));
            if let Some(d) = off {
                // the other way of building the same formatter: Formatter::new on the shifted epoch, then set_timezone
                // (seeded change C19-12 cached the %z fields at construction and never refreshed them in set_timezone)
                let mut f2 = Formatter::new(s2e(a[1]) + d, fmt);
                f2.set_timezone(d);
                if fmt_to_string(&f2).ok() != text.clone().ok() {
                    return Some("entry-points-differ".to_string());
                }
            }
            Some(res_text(text))
        }
        "format_ts" => {
            let fmt = match Format::from_str(&hex2str(a[0])) {
                Ok(f) => f,
                Err(_) => return Some("err".to_string()),
            };
            Some(res_text(fmt_to_string(&Formatter::to_time_scale(s2e(a[1]), fmt, s2ts(a[2])))))
        }
        "format_const" => {
            let off = a.get(2).map(|d| s2d(d));
            Some(res_text(fmt_to_string(&formatter_for(s2e(a[1]), const_by_name(a[0]), off))))
        }
        "fmt_back" | "fmt_back_const" => {
            let fmt = if op == "fmt_back" {
                match Format::from_str(&hex2str(a[0])) {
                    Ok(f) => f,
                    Err(_) => return Some("err".to_string()),
                }
            } else {
                const_by_name(a[0])
            };
            let off = a.get(2).map(|d| s2d(d));
            let text = match fmt_to_string(&formatter_for(s2e(a[1]), fmt, off)) {
                Ok(s) => s,
                Err(_) => return Some("err".to_string()),
            };
            // the three entry points of parsing with a format must agree (seeded change C19-13: a layout fast path in
            // Epoch::from_str_with_format only)
            let r1 = fmt.parse(&text);
            let r2 = Epoch::from_str_with_format(&text, fmt);
            let same = |x: &Result<Epoch, hifitime::HifitimeError>, y: &Result<Epoch, hifitime::HifitimeError>| match (x, y) {
                (Ok(p), Ok(q)) => p.duration == q.duration && p.time_scale == q.time_scale,
                (Err(_), Err(_)) => true,
                _ => false,
            };
            if !same(&r1, &r2) {
                return Some("entry-points-differ".to_string());
            }
            if op == "fmt_back" {
                let r3 = Epoch::from_format_str(&text, &hex2str(a[0]));
                if !same(&r1, &r3) {
                    return Some("entry-points-differ".to_string());
                }
            }
            Some(res_e(r1))
        }
        "iso_display" => {
            // Formatter(ISO8601) and the default Display of the same epoch
            let e = s2e(a[0]);
            // (audit 3, B3) a Display error of the formatter is an answer (`err`), not a malformed line
            match fmt_to_string(&Formatter::new(e, consts::ISO8601)) {
                Ok(f) => Some(format!("ok {} {}", str2hex(&f), str2hex(&format!("{}", e)))),
                Err(_) => Some("err".to_string()),
            }
        }
        "to_isoformat" => Some(format!("ok {}", str2hex(&s2e(a[0]).to_isoformat()))),
        // ---- C13F
        "p_fmtparse" => {
            let fmt = match Format::from_str(&hex2str(a[0])) {
                Ok(f) => f,
                Err(_) => return Some("err".to_string()),
            };
            let s = hex2str(a[1]);
            // `Epoch::from_str_with_format` is `format.parse`; both entry points are exercised
            let r1 = fmt.parse(&s);
            let r2 = Epoch::from_str_with_format(&s, fmt);
            // the two entry points must answer alike (value for value): a difference is reported as its own word, which no
            // model answer equals
            let same = match (&r1, &r2) {
                (Ok(x), Ok(y)) => x.to_time_scale(y.time_scale).duration.to_parts() == y.duration.to_parts() && x.time_scale == y.time_scale,
                (Err(_), Err(_)) => true,
                _ => false,
            };
            if !same {
                return Some("entry-points-differ".to_string());
            }
            Some(res_e(r1))
        }
        "p_constparse" => Some(res_e(const_by_name(a[0]).parse(&hex2str(a[1])))),
        "p_fmtstr" => Some(res_e(Epoch::from_format_str(&hex2str(a[0]), &hex2str(a[1])))),
        _ => None,
    }
}

pub fn dump_consts(m: &mut serde_json::Map<String, serde_json::Value>) {
    let mut c = serde_json::Map::new();
    for (name, f) in CONSTS.iter() {
        c.insert(name.to_string(), serde_json::json!(format!("{:?}", f)));
    }
    m.insert("EFMT_CONSTS_DEBUG".into(), serde_json::Value::Object(c));
    // names as the formatter prints them
    let wd_long: Vec<String> = (0u8..7).map(|u| format!("{}", hifitime::Weekday::from(u))).collect();
    let wd_short: Vec<String> = (0u8..7).map(|u| format!("{:x}", hifitime::Weekday::from(u))).collect();
    let mo_long: Vec<String> = (1u8..=12).map(|u| format!("{}", hifitime::MonthName::from(u))).collect();
    let mo_short: Vec<String> = (1u8..=12).map(|u| format!("{:x}", hifitime::MonthName::from(u))).collect();
    let ts_names: Vec<String> = SCALES.iter().map(|t| format!("{}", t)).collect();
    m.insert("EFMT_WEEKDAY_LONG".into(), serde_json::json!(wd_long));
    m.insert("EFMT_WEEKDAY_SHORT".into(), serde_json::json!(wd_short));
    m.insert("EFMT_MONTH_LONG".into(), serde_json::json!(mo_long));
    m.insert("EFMT_MONTH_SHORT".into(), serde_json::json!(mo_short));
    m.insert("EFMT_TIMESCALE_DISPLAY".into(), serde_json::json!(ts_names));
    // `char::is_numeric` / `char::is_whitespace` of the std actually linked, as inclusive ranges
    let ranges = |p: &dyn Fn(char) -> bool| {
        let mut v: Vec<(u32, u32)> = Vec::new();
        let mut cur: Option<(u32, u32)> = None;
        for u in 0u32..=0x10FFFF {
            let hit = char::from_u32(u).map(|c| p(c)).unwrap_or(false);
            match (hit, cur) {
                (true, None) => cur = Some((u, u)),
                (true, Some((a, _))) => cur = Some((a, u)),
                (false, Some(x)) => {
                    v.push(x);
                    cur = None;
                }
                _ => {}
            }
        }
        if let Some(x) = cur {
            v.push(x);
        }
        v
    };
    m.insert("EFMT_CHAR_IS_NUMERIC".into(), serde_json::json!(ranges(&|c| c.is_numeric())));
    m.insert("EFMT_CHAR_IS_WHITESPACE".into(), serde_json::json!(ranges(&|c| c.is_whitespace())));
}
