//! C08 C09: Gregorian date -> Epoch, Epoch -> Gregorian fields / Display.
//!
//! The generators build their inputs with their own calendar arithmetic (`days_from_1900`, a
//! month-length table and the 4/100/400 rule written here), never with hifitime's.
use crate::codec::*;
use crate::gen::*;
use crate::rng::Rng;
use hifitime::{Duration, Epoch, TimeScale};
use std::io::Write;

const NPD: i128 = 86_400_000_000_000;
const LAST_NS: i128 = NPD - 1;

/// Years named in DESIGN §4.2 plus the neighbours of the code's branch points (1900, leap-second era).
const YEARS: [i64; 34] = [
    1, 2, 3, 4, 5, 99, 100, 101, 399, 400, 401, 1582, 1600, 1700, 1800, 1899, 1900, 1901, 1904, 1971, 1972, 1973, 1980, 1999,
    2000, 2001, 2016, 2017, 2024, 2100, 2400, 3400, 9998, 9999,
];
/// Outside 0001-9999 (sampled part of the quantifier, |year| <= 30 000)
const FAR_YEARS: [i64; 14] = [0, -1, -3, -4, -100, -400, -401, -9999, -29999, -30000, 10000, 10001, 29999, 30000];

/// Days on which 23:59:60 exists: the day before each entry of data/leap-seconds.list (month, year of the day).
const LEAP_SECOND_DAYS: [(i64, i64, i64); 28] = [
    (1971, 12, 31), (1972, 6, 30), (1972, 12, 31), (1973, 12, 31), (1974, 12, 31), (1975, 12, 31), (1976, 12, 31),
    (1977, 12, 31), (1978, 12, 31), (1979, 12, 31), (1981, 6, 30), (1982, 6, 30), (1983, 6, 30), (1985, 6, 30),
    (1987, 12, 31), (1989, 12, 31), (1990, 12, 31), (1992, 6, 30), (1993, 6, 30), (1994, 6, 30), (1995, 12, 31),
    (1997, 6, 30), (1998, 12, 31), (2005, 12, 31), (2008, 12, 31), (2012, 6, 30), (2015, 6, 30), (2016, 12, 31),
];

pub fn is_leap(y: i64) -> bool {
    (y.rem_euclid(4) == 0 && y.rem_euclid(100) != 0) || y.rem_euclid(400) == 0
}

pub fn month_len(y: i64, m: i64) -> i64 {
    match m {
        1 | 3 | 5 | 7 | 8 | 10 | 12 => 31,
        4 | 6 | 9 | 11 => 30,
        2 => {
            if is_leap(y) {
                29
            } else {
                28
            }
        }
        _ => 0,
    }
}

/// Days from 1900-01-01 to y-m-d, counted year by year and month by month (no closed formula).
pub fn days_from_1900(y: i64, m: i64, d: i64) -> i64 {
    // leap days between two years by counting multiples; checked against month-by-month counting in tests below
    let l = |x: i64| x.div_euclid(4) - x.div_euclid(100) + x.div_euclid(400);
    let mut n = (y - 1900) * 365 + l(y - 1) - l(1899);
    for mm in 1..m {
        n += month_len(y, mm);
    }
    n + d - 1
}

/// ns from 1900-01-01T00:00:00 to the reference date-time of the scale's Gregorian count.
fn ref_offset_ns(ts: TimeScale) -> i128 {
    match ts {
        TimeScale::ET | TimeScale::TDB => days_from_1900(2000, 1, 1) as i128 * NPD + NPD / 2,
        TimeScale::GPST | TimeScale::QZSST => days_from_1900(1980, 1, 6) as i128 * NPD,
        TimeScale::GST => days_from_1900(1999, 8, 22) as i128 * NPD,
        TimeScale::BDT => days_from_1900(2006, 1, 1) as i128 * NPD,
        _ => 0,
    }
}

/// Date and time of day of the label that lies `t` ns after 1900-01-01T00:00:00 (inverse of days_from_1900, by search).
fn civil_of_count(t: i128) -> (i64, i64, i64, i64, i64, i64, i64) {
    let days = t.div_euclid(NPD) as i64;
    let tod = t.rem_euclid(NPD);
    let mut y = 1900 + (days as f64 / 365.2425).floor() as i64;
    while days_from_1900(y, 1, 1) > days {
        y -= 1;
    }
    while days_from_1900(y + 1, 1, 1) <= days {
        y += 1;
    }
    let mut m = 1;
    while m < 12 && days_from_1900(y, m + 1, 1) <= days {
        m += 1;
    }
    let d = days - days_from_1900(y, m, 1) + 1;
    let (h, mi, sec, ns) = tod_fields(tod);
    (y, m, d, h, mi, sec, ns)
}

/// Labels at the word-size thresholds of the counts an implementation may form on the way: nanoseconds (2^63, 2^64),
/// seconds (2^31, 2^32) and days (2^15, 2^16) from 1900-01-01 of the label's own calendar, and from the scale's own
/// reference date-time; around each threshold to the nanosecond and to the end of that second.
fn word_size_block_c08(out: &mut dyn Write) {
    let mut k = 0usize;
    let thresholds: [i128; 6] = [1i128 << 63, 1i128 << 64, (1i128 << 31) * 1_000_000_000, (1i128 << 32) * 1_000_000_000, (1i128 << 15) * NPD, (1i128 << 16) * NPD];
    for th in thresholds {
        for sgn in [1i128, -1] {
            for ts in SCALES.iter() {
                for base in [0i128, ref_offset_ns(*ts)] {
                    let t0 = base + sgn * th;
                    let to_end = 999_999_999 - t0.rem_euclid(1_000_000_000);
                    for dl in [-1_000_000_000i128, -1, 0, 1, to_end, to_end + 1, 1_000_000_000] {
                        // thin the rotation: every scale sees every threshold, the offsets rotate
                        k += 1;
                        if base != 0 && k % 2 == 0 {
                            continue;
                        }
                        writeln!(out, "greg {} {}", f7(civil_of_count(t0 + dl)), ts2s(*ts)).unwrap();
                    }
                }
            }
        }
    }
}

fn tod_fields(t: i128) -> (i64, i64, i64, i64) {
    let ns = (t % 1_000_000_000) as i64;
    let s = t / 1_000_000_000;
    ((s / 3600) as i64, ((s / 60) % 60) as i64, (s % 60) as i64, ns)
}

fn pick_year(r: &mut Rng) -> i64 {
    match r.below(20) {
        0..=5 => *r.pick(&YEARS),
        6 => *r.pick(&FAR_YEARS),
        7 | 8 => r.range_i64(-30000, 30000),
        9 => r.range_i64(1890, 2110),
        _ => r.range_i64(1, 9999),
    }
}

fn pick_day(r: &mut Rng, y: i64, m: i64) -> i64 {
    let l = month_len(y, m);
    match r.below(6) {
        0 => 1,
        1 => l,
        2 => 28.min(l),
        _ => 1 + r.below(l as u64) as i64,
    }
}

/// A time of day in which every field (hour, minute, second, millisecond, microsecond, nanosecond part) is
/// independently zero or not: whole minutes, whole hours, whole milliseconds, … — the carries and borrows of a
/// field-by-field decomposition only show on such instants (seeded change C09-6), which a uniform draw never hits.
pub fn tod_field_pattern(r: &mut Rng) -> i128 {
    let mut f = |max: u64| -> i128 {
        match r.below(5) {
            0 | 1 => 0,
            2 => 1,
            3 => max as i128,
            _ => r.below(max + 1) as i128,
        }
    };
    let (h, m, s) = (f(23), f(59), f(59));
    let (ms, us, ns) = if f(1) == 0 { (0, 0, 0) } else { (f(999), f(999), f(999)) };
    ((h * 60 + m) * 60 + s) * 1_000_000_000 + ms * 1_000_000 + us * 1_000 + ns
}

fn pick_tod(r: &mut Rng) -> i128 {
    match r.below(17) {
        12 | 13 | 14 => tod_field_pattern(r),
        // the last / first seconds of the day, as many as the time scales differ by (see props/epoch.rs, day of year)
        15 | 16 => {
            let k = *r.pick(&[1i128, 5, 10, 18, 19, 20, 32, 33, 34, 36, 37, 38, 51]) * 1_000_000_000 - r.below(1_000_000_000) as i128;
            if r.chance(2, 3) { NPD - k } else { k }
        }
        0 | 1 => 0,
        2 | 3 => LAST_NS,
        4 => 1,
        5 => *r.pick(&[238i128, 239, 500, 999, 1000]),
        6 => LAST_NS - *r.pick(&[1i128, 237, 238, 239, 500, 999]),
        7 => (r.below(86400) as i128) * 1_000_000_000,
        8 => NPD / 2 + r.range_i64(-1, 1) as i128,
        9 => (r.below(24) as i128) * 3_600_000_000_000 + *r.pick(&[0i128, 3_599_999_999_999]),
        _ => r.below(NPD as u64) as i128,
    }
}

fn scale(r: &mut Rng) -> TimeScale {
    SCALES[r.below(9) as usize]
}

/// A valid date-time (second < 60) as protocol fields.
fn valid_fields(r: &mut Rng) -> (i64, i64, i64, i64, i64, i64, i64) {
    let y = pick_year(r);
    let m = 1 + r.below(12) as i64;
    let d = pick_day(r, y, m);
    let (h, mi, s, ns) = tod_fields(pick_tod(r));
    (y, m, d, h, mi, s, ns)
}

fn f7(f: (i64, i64, i64, i64, i64, i64, i64)) -> String {
    format!("{} {} {} {} {} {} {}", f.0, f.1, f.2, f.3, f.4, f.5, f.6)
}

/// One line of the rejection stream: a valid date-time with one or two fields pushed out of range
/// (never hour = 24 or nanosecond = 10^9, which the property leaves open).
fn reject_fields(r: &mut Rng) -> (i64, i64, i64, i64, i64, i64, i64) {
    let mut f = valid_fields(r);
    let k = if r.chance(1, 5) { 2 } else { 1 };
    for _ in 0..k {
        match r.below(9) {
            0 => f.1 = *r.pick(&[0i64, 13, 14, 100, 255]),
            1 => f.2 = 0,
            2 => f.2 = month_len(f.0, f.1) + 1, // first day beyond the month (29/30 Feb, 31 Apr, 32 Jan …)
            3 => f.2 = *r.pick(&[32i64, 33, 99, 255]),
            4 => f.3 = *r.pick(&[25i64, 26, 60, 255]),
            5 => f.4 = *r.pick(&[60i64, 61, 99, 255]),
            6 => f.5 = *r.pick(&[61i64, 62, 99, 255]),
            7 => f.6 = *r.pick(&[1_000_000_001i64, 1_000_000_002, 2_000_000_000, 4_294_967_295]),
            _ => f.5 = 60, // a leap second where there is none (checked by the spec, may be valid by chance)
        }
    }
    if f.2 > 255 {
        f.2 = 255;
    }
    f
}

/// second = 60 around the leap-second days
fn leap_second_fields(r: &mut Rng) -> (i64, i64, i64, i64, i64, i64, i64) {
    let ns = *r.pick(&[0i64, 1, 500_000_000, 999_999_999]);
    match r.below(10) {
        0..=3 => {
            let (y, m, d) = *r.pick(&LEAP_SECOND_DAYS);
            (y, m, d, 23, 59, 60, ns)
        }
        4 => {
            // right day, wrong time of day
            let (y, m, d) = *r.pick(&LEAP_SECOND_DAYS);
            // (24:59 included: hour = 24 alone is left open by the property, but second = 60 "at any other time of day"
            // must be rejected whatever the hour)
            let (h, mi) = *r.pick(&[(0i64, 0i64), (23, 58), (22, 59), (12, 59), (23, 0), (0, 59), (24, 59), (24, 0)]);
            (y, m, d, h, mi, 60, ns)
        }
        5 => {
            // the other candidate day of the same year, or the same day in a neighbouring year
            let (y, m, d) = *r.pick(&LEAP_SECOND_DAYS);
            let y2 = y + r.range_i64(-2, 2);
            let (m2, d2) = if r.chance(1, 2) { (m, d) } else { (18 - m, if m == 12 { 30 } else { 31 }) };
            (y2, m2, d2, 23, 59, 60, ns)
        }
        6 => {
            // 30 June / 31 December of any year
            let y = pick_year(r);
            let (m, d) = *r.pick(&[(6i64, 30i64), (12, 31)]);
            (y, m, d, 23, 59, 60, ns)
        }
        7 => {
            // day before / after a leap-second day, last day of other months
            let (y, m, d) = *r.pick(&LEAP_SECOND_DAYS);
            let (m2, d2) = *r.pick(&[(m, d - 1), (3i64, 31i64), (9, 30), (1, 1), (7, 1), (m, 1)]);
            (y, m2, d2, 23, 59, 60, ns)
        }
        _ => {
            let mut f = valid_fields(r);
            f.3 = 23;
            f.4 = 59;
            f.5 = 60;
            f
        }
    }
}

/// 28..31 February in leap, non-leap and century years (30/31 in leap years: recorded defect D10)
fn february_fields(r: &mut Rng) -> (i64, i64, i64, i64, i64, i64, i64) {
    let y = match r.below(4) {
        0 => *r.pick(&[1900i64, 2000, 2100, 1600, 1700, 400, 100, 4, 1, 2020, 2024, 2023, 1972, 9996, 9999]),
        1 => 4 * r.range_i64(-7500, 7500),
        2 => 100 * r.range_i64(-300, 300),
        _ => pick_year(r),
    };
    let d = 28 + r.below(4) as i64;
    let (h, mi, s, ns) = tod_fields(pick_tod(r));
    (y, 2, d, h, mi, s, ns)
}

fn boundary_block_c08(out: &mut dyn Write) {
    let mut k = 0usize;
    for &y in YEARS.iter().chain(FAR_YEARS.iter()) {
        for m in 1..=12i64 {
            let l = month_len(y, m);
            for d in [1, l, l + 1] {
                for t in [0i128, LAST_NS] {
                    let (h, mi, s, ns) = tod_fields(t);
                    let ts = SCALES[k % 9];
                    k += 1;
                    writeln!(out, "greg {} {} {} {} {} {} {} {}", y, m, d, h, mi, s, ns, ts2s(ts)).unwrap();
                }
            }
        }
        for d in 28..=31 {
            writeln!(out, "greg {} 2 {} 0 0 0 0 {}", y, d, ts2s(SCALES[k % 9])).unwrap();
            k += 1;
        }
    }
    // every leap-second day, every scale: 23:59:60 and 23:59:59
    for (i, &(y, m, d)) in LEAP_SECOND_DAYS.iter().enumerate() {
        for (j, ts) in SCALES.iter().enumerate() {
            writeln!(out, "greg {} {} {} 23 59 60 {} {}", y, m, d, if (i + j) % 2 == 0 { 0 } else { 999_999_999 }, ts2s(*ts)).unwrap();
        }
        writeln!(out, "greg_valid {} {} {} 23 59 60 0", y, m, d).unwrap();
        writeln!(out, "greg_valid {} {} {} 23 59 59 999999999", y, m, d).unwrap();
        // a genuine leap-second label whose OTHER fields are out of range: the rejection tests must not be skipped
        // on the leap-second path (nanoseconds above 10^9, day / month / hour / minute off by one)
        for ns in [1_000_000_001u64, 1_500_000_000, 3_000_000_000, 4_294_967_295] {
            writeln!(out, "greg_valid {} {} {} 23 59 60 {}", y, m, d, ns).unwrap();
            writeln!(out, "greg {} {} {} 23 59 60 {} {}", y, m, d, ns, ts2s(SCALES[(i + ns as usize) % 9])).unwrap();
        }
        writeln!(out, "greg_valid {} {} {} 23 60 60 0", y, m, d).unwrap();
        writeln!(out, "greg_valid {} {} {} 24 59 60 0", y, m, d).unwrap();
        writeln!(out, "greg_valid {} {} {} 23 59 60 0", y, m, d + 1).unwrap();
        writeln!(out, "greg_valid {} {} {} 23 59 60 0", y, 13, d).unwrap();
        writeln!(out, "greg_valid {} {} {} 23 59 61 0", y, m, d).unwrap();
    }
    // years around the bounds of the i32 day count an implementation may form (365 x (y - 1900) fits an i32 up to year
    // 5 885 416; with the leap days added in the same i32 the sum overflows from year 5 881 511 on), both sides of 1900:
    // value, saturation or error, never a panic
    for dy in [5_879_609i64, 5_879_610, 5_879_611, 5_881_000, 5_883_515, 5_883_516, 5_883_517] {
        for y in [1900 + dy, 1900 - dy] {
            for (m, d) in [(1i64, 1i64), (3, 1), (12, 31)] {
                writeln!(out, "greg {} {} {} 0 0 0 0 {}", y, m, d, ts2s(SCALES[k % 9])).unwrap();
                k += 1;
            }
        }
    }
    // each scale's reference date-time and its neighbours
    for ts in SCALES.iter() {
        for (y, m, d) in [(1900i64, 1i64, 1i64), (2000, 1, 1), (1980, 1, 6), (1999, 8, 22), (2006, 1, 1), (1980, 1, 5), (1999, 8, 21), (2005, 12, 31), (1899, 12, 31)] {
            for (h, mi, s, ns) in [(0i64, 0i64, 0i64, 0i64), (12, 0, 0, 0), (11, 59, 59, 999_999_999), (0, 0, 19, 0), (0, 0, 33, 0), (23, 59, 59, 999_999_999)] {
                writeln!(out, "greg {} {} {} {} {} {} {} {}", y, m, d, h, mi, s, ns, ts2s(*ts)).unwrap();
            }
        }
    }
}

/// Full cross product of boundary field values (rejection part), thorough tier.
fn cross_product_c08(out: &mut dyn Write) {
    for y in [1900i64, 1972, 2000, 2015, 2016, 2017, 2023] {
        for m in [0i64, 1, 2, 6, 11, 12, 13] {
            for d in [0i64, 1, 28, 29, 30, 31, 32] {
                for h in [0i64, 23, 25] {
                    for mi in [0i64, 59, 60] {
                        for s in [0i64, 59, 60, 61] {
                            for ns in [0i64, 999_999_999, 1_000_000_001] {
                                writeln!(out, "greg_valid {} {} {} {} {} {} {}", y, m, d, h, mi, s, ns).unwrap();
                            }
                        }
                    }
                }
            }
        }
    }
}

pub fn inputs_c08(r: &mut Rng, n: usize, tier: &str, out: &mut dyn Write) {
    boundary_block_c08(out);
    word_size_block_c08(out);
    if tier == "thorough" && n >= 40_000 {
        // Exhaustive part, sharded by the seed (the orchestrator runs seeds s, s+1, …, s+7):
        // every month of the years 0001-9999, all 31 day numbers, at 00:00:00.0 in TAI and at
        // 23:59:59.999999999 in a scale that rotates with the year.
        let sh = shard();
        for y in 1..=9999i64 {
            if y % 8 != sh {
                continue;
            }
            for m in 1..=12 {
                writeln!(out, "greg_month {} {} 0 0 0 0 TAI", y, m).unwrap();
                writeln!(out, "greg_month {} {} 23 59 59 999999999 {}", y, m, ts2s(SCALES[(y % 9) as usize])).unwrap();
            }
        }
        if sh == 0 {
            cross_product_c08(out);
        }
    }
    for _ in 0..n {
        match r.below(32) {
            0..=9 => writeln!(out, "greg {} {}", f7(valid_fields(r)), ts2s(scale(r))).unwrap(),
            10..=13 => writeln!(out, "greg {} {}", f7(reject_fields(r)), ts2s(scale(r))).unwrap(),
            14 | 15 => writeln!(out, "greg {} {}", f7(leap_second_fields(r)), ts2s(scale(r))).unwrap(),
            16 | 17 => writeln!(out, "greg {} {}", f7(february_fields(r)), ts2s(scale(r))).unwrap(),
            18 | 19 => {
                let f = match r.below(4) {
                    0 => valid_fields(r),
                    1 => leap_second_fields(r),
                    2 => february_fields(r),
                    _ => reject_fields(r),
                };
                writeln!(out, "greg_valid {}", f7(f)).unwrap()
            }
            20 => {
                // a random sample of the boundary cross product
                let y = *r.pick(&[1900i64, 1972, 2000, 2015, 2016, 2017, 2023]);
                let m = *r.pick(&[0i64, 1, 2, 6, 11, 12, 13]);
                let d = *r.pick(&[0i64, 1, 28, 29, 30, 31, 32]);
                let h = *r.pick(&[0i64, 23, 25]);
                let mi = *r.pick(&[0i64, 59, 60]);
                let s = *r.pick(&[0i64, 59, 60, 61]);
                let ns = *r.pick(&[0i64, 999_999_999, 1_000_000_001]);
                writeln!(out, "greg {} {} {} {} {} {} {} {}", y, m, d, h, mi, s, ns, ts2s(scale(r))).unwrap()
            }
            21 => {
                let op = *r.pick(&["greg_maybe_tai", "greg_maybe_utc"]);
                let f = if r.chance(1, 4) { reject_fields(r) } else if r.chance(1, 4) { leap_second_fields(r) } else { valid_fields(r) };
                writeln!(out, "{} {}", op, f7(f)).unwrap()
            }
            22 | 23 => {
                // the panicking constructors: mostly valid input, some invalid (documented: panic)
                let f = if r.chance(1, 8) { reject_fields(r) } else if r.chance(1, 8) { leap_second_fields(r) } else { valid_fields(r) };
                match r.below(3) {
                    0 => writeln!(out, "greg_from {} {}", f7(f), ts2s(scale(r))).unwrap(),
                    1 => writeln!(out, "greg_from_tai {}", f7(f)).unwrap(),
                    _ => writeln!(out, "greg_from_utc {}", f7(f)).unwrap(),
                }
            }
            24 | 25 => {
                let f = if r.chance(1, 8) { reject_fields(r) } else if r.chance(1, 6) { february_fields(r) } else { valid_fields(r) };
                let op = *r.pick(&["midnight", "noon"]);
                match r.below(3) {
                    0 => writeln!(out, "greg_{} {} {} {} {}", op, f.0, f.1, f.2, ts2s(scale(r))).unwrap(),
                    1 => writeln!(out, "greg_tai_{} {} {} {}", op, f.0, f.1, f.2).unwrap(),
                    _ => writeln!(out, "greg_utc_{} {} {} {}", op, f.0, f.1, f.2).unwrap(),
                }
            }
            26 | 27 => {
                let f = if r.chance(1, 8) { reject_fields(r) } else if r.chance(1, 6) { leap_second_fields(r) } else { valid_fields(r) };
                match r.below(3) {
                    0 => writeln!(out, "greg_hms {} {} {} {} {} {} {}", f.0, f.1, f.2, f.3, f.4, f.5, ts2s(scale(r))).unwrap(),
                    1 => writeln!(out, "greg_tai_hms {} {} {} {} {} {}", f.0, f.1, f.2, f.3, f.4, f.5).unwrap(),
                    _ => writeln!(out, "greg_utc_hms {} {} {} {} {} {}", f.0, f.1, f.2, f.3, f.4, f.5).unwrap(),
                }
            }
            _ => {
                // one whole month (all 31 day numbers) at one time of day
                let y = pick_year(r);
                let m = 1 + r.below(12) as i64;
                let (h, mi, s, ns) = tod_fields(pick_tod(r));
                writeln!(out, "greg_month {} {} {} {} {} {} {}", y, m, h, mi, s, ns, ts2s(scale(r))).unwrap()
            }
        }
    }
}

/// The orchestrator runs the thorough tier with the eight consecutive seeds s, s+1, …, s+7: the
/// exhaustive enumerations are partitioned by `seed % 8` (years ≡ shard mod 8).
fn shard() -> i64 {
    (crate::gen::SEED.load(std::sync::atomic::Ordering::Relaxed) % 8) as i64
}

// ------------------------------------------------------------------------------------------- C09

/// total ns (w.r.t. the scale's reference epoch) of a date-time in that scale
fn total_of(y: i64, m: i64, d: i64, tod: i128, ts: TimeScale) -> i128 {
    days_from_1900(y, m, d) as i128 * NPD + tod - ref_offset_ns(ts)
}

fn estr(t: i128, ts: TimeScale) -> String {
    format!("{}:{}", dstr(t), ts2s(ts))
}

fn epoch_c09(r: &mut Rng, ts: TimeScale) -> String {
    let y = pick_year(r);
    let m = match r.below(4) {
        0 => *r.pick(&[1i64, 2, 3, 12]),
        _ => 1 + r.below(12) as i64,
    };
    let d = pick_day(r, y, m);
    estr(total_of(y, m, d, pick_tod(r), ts), ts)
}

fn boundary_block_c09(out: &mut dyn Write) {
    let mut k = 0usize;
    for &y in YEARS.iter().chain(FAR_YEARS.iter()) {
        for m in 1..=12i64 {
            let l = month_len(y, m);
            for d in [1, l] {
                for t in [0i128, LAST_NS] {
                    let ts = SCALES[k % 9];
                    k += 1;
                    writeln!(out, "display {}", estr(total_of(y, m, d, t, ts), ts)).unwrap();
                }
            }
        }
        for (m, d) in [(2i64, 28i64), (2, 29), (3, 1), (12, 31), (1, 1)] {
            if d <= month_len(y, m) {
                for t in [0i128, 1, NPD / 2, LAST_NS] {
                    writeln!(out, "to_greg_tai {}", estr(total_of(y, m, d, t, TimeScale::TAI), TimeScale::TAI)).unwrap();
                    writeln!(out, "to_greg_utc {}", estr(total_of(y, m, d, t, TimeScale::UTC), TimeScale::UTC)).unwrap();
                }
            }
        }
    }
    // word-size thresholds of the counts (2^63, 2^64 ns; 2^31, 2^32 s; 2^15, 2^16 days) from each scale's own zero
    // and from 1900-01-01 of its calendar
    for th in [1i128 << 63, 1i128 << 64, (1i128 << 31) * 1_000_000_000, (1i128 << 32) * 1_000_000_000, (1i128 << 15) * NPD, (1i128 << 16) * NPD] {
        for sgn in [1i128, -1] {
            for ts in SCALES.iter() {
                for base in [0i128, -ref_offset_ns(*ts)] {
                    for dt in [-1i128, 0, 1] {
                        k += 1;
                        let op = ["display", "to_greg_tai", "to_greg_utc", "year", "dur_in_year"][k % 5];
                        // the two tuple accessors are observed on epochs held in their own scale
                        let ts2 = match op { "to_greg_tai" => TimeScale::TAI, "to_greg_utc" => TimeScale::UTC, _ => *ts };
                        writeln!(out, "{} {}", op, estr(base + sgn * th + dt, ts2)).unwrap();
                    }
                }
            }
        }
    }
    // around each scale's own zero and around 1900-01-01 in each scale
    for ts in SCALES.iter() {
        for base in [0i128, -ref_offset_ns(*ts)] {
            for dt in [-NPD - 1, -NPD, -NPD + 1, -1_000_000_000, -239, -238, -2, -1, 0, 1, 2, 238, 239, 1_000_000_000, NPD - 1, NPD, NPD + 1] {
                writeln!(out, "display {}", estr(base + dt, *ts)).unwrap();
                writeln!(out, "year {}", estr(base + dt, *ts)).unwrap();
                writeln!(out, "dur_in_year {}", estr(base + dt, *ts)).unwrap();
            }
        }
    }
}

pub fn inputs_c09(r: &mut Rng, n: usize, tier: &str, out: &mut dyn Write) {
    boundary_block_c09(out);
    if tier == "thorough" && n >= 40_000 {
        // every day of 0001-9999: a run of one month of consecutive days per line, at 00:00:00.0,
        // at 23:59:59.999999999 and at one random time of day; the scale rotates with the year.
        let sh = shard();
        for y in 1..=9999i64 {
            if y % 8 != sh {
                continue;
            }
            let ts = SCALES[(y % 9) as usize];
            for m in 1..=12 {
                let l = month_len(y, m);
                let t3 = r.below(NPD as u64) as i128;
                for t in [0i128, LAST_NS, t3] {
                    writeln!(out, "display_days {} {}", estr(total_of(y, m, 1, t, ts), ts), l).unwrap();
                }
            }
        }
    }
    for k in 0..n {
        if k % 16 == 15 {
            // {:?} {:x} {:X} {:e} {:E} on epochs held in any scale
            super::wrappers::gen_c09(r, out);
            continue;
        }
        let ts = scale(r);
        match r.below(32) {
            0..=9 => writeln!(out, "display {}", epoch_c09(r, ts)).unwrap(),
            10 | 11 => writeln!(out, "to_greg_str {}", epoch_c09(r, ts)).unwrap(),
            12 | 13 => writeln!(out, "to_greg_tai {}", epoch_c09(r, TimeScale::TAI)).unwrap(),
            14 | 15 => writeln!(out, "to_greg_utc {}", epoch_c09(r, TimeScale::UTC)).unwrap(),
            16 => writeln!(out, "greg_rt_tai {}", epoch_c09(r, TimeScale::TAI)).unwrap(),
            17 => writeln!(out, "greg_rt_utc {}", epoch_c09(r, TimeScale::UTC)).unwrap(),
            18 => writeln!(out, "fmt_debug {}", epoch_c09(r, TimeScale::UTC)).unwrap(),
            19 => match r.below(4) {
                0 => writeln!(out, "fmt_x {}", epoch_c09(r, TimeScale::TAI)).unwrap(),
                1 => writeln!(out, "fmt_X {}", epoch_c09(r, TimeScale::TT)).unwrap(),
                2 => writeln!(out, "fmt_e {}", epoch_c09(r, TimeScale::TDB)).unwrap(),
                _ => writeln!(out, "fmt_E {}", epoch_c09(r, TimeScale::ET)).unwrap(),
            },
            20 | 21 => writeln!(out, "year {}", epoch_c09(r, ts)).unwrap(),
            22 | 23 => writeln!(out, "month_name {}", epoch_c09(r, ts)).unwrap(),
            24 | 25 => writeln!(out, "dur_in_year {}", epoch_c09(r, ts)).unwrap(),
            26 => writeln!(out, "doy {}", epoch_c09(r, ts)).unwrap(),
            27 => writeln!(out, "ydoy {}", epoch_c09(r, ts)).unwrap(),
            28 if r.chance(1, 2) => writeln!(out, "greg_rt {}", epoch_c09(r, ts)).unwrap(),
            28 => {
                // fields -> epoch (every constructor, the convenience wrappers included) -> fields (seeded change C09-7: the
                // *_at_noon constructors rebuilt on `with_hms`, a day early before the scale's reference and midnight in ET/TDB)
                let (y, m, d, h, mi, s, ns) = valid_fields(r);
                let t = ts2s(ts);
                match r.below(14) {
                    0 => writeln!(out, "fields_rt greg_from {} {} {} {} {} {} {} {}", y, m, d, h, mi, s, ns, t).unwrap(),
                    1 => writeln!(out, "fields_rt greg {} {} {} {} {} {} {} {}", y, m, d, h, mi, s, ns, t).unwrap(),
                    2 => writeln!(out, "fields_rt greg_from_tai {} {} {} {} {} {} {}", y, m, d, h, mi, s, ns).unwrap(),
                    3 => writeln!(out, "fields_rt greg_from_utc {} {} {} {} {} {} {}", y, m, d, h, mi, s, ns).unwrap(),
                    4 => writeln!(out, "fields_rt greg_midnight {} {} {} {}", y, m, d, t).unwrap(),
                    5 | 6 => writeln!(out, "fields_rt greg_noon {} {} {} {}", y, m, d, t).unwrap(),
                    7 => writeln!(out, "fields_rt greg_tai_midnight {} {} {}", y, m, d).unwrap(),
                    8 => writeln!(out, "fields_rt greg_tai_noon {} {} {}", y, m, d).unwrap(),
                    9 => writeln!(out, "fields_rt greg_utc_midnight {} {} {}", y, m, d).unwrap(),
                    10 => writeln!(out, "fields_rt greg_utc_noon {} {} {}", y, m, d).unwrap(),
                    11 => writeln!(out, "fields_rt greg_hms {} {} {} {} {} {} {}", y, m, d, h, mi, s, t).unwrap(),
                    12 => writeln!(out, "fields_rt greg_tai_hms {} {} {} {} {} {}", y, m, d, h, mi, s).unwrap(),
                    _ => writeln!(out, "fields_rt greg_utc_hms {} {} {} {} {} {}", y, m, d, h, mi, s).unwrap(),
                }
            }
            _ => {
                let y = pick_year(r);
                let m = 1 + r.below(12) as i64;
                let t = pick_tod(r);
                writeln!(out, "display_days {} {}", estr(total_of(y, m, 1, t, ts), ts), month_len(y, m)).unwrap()
            }
        }
    }
}

// ------------------------------------------------------------------------------------------ exec

fn i32a(s: &str) -> i32 {
    s.parse().unwrap()
}
fn u8a(s: &str) -> u8 {
    s.parse().unwrap()
}
fn u32a(s: &str) -> u32 {
    s.parse().unwrap()
}

fn res_e(r: Result<Epoch, hifitime::HifitimeError>) -> String {
    match r {
        Ok(e) => format!("ok {}", e2s(e)),
        Err(_) => "err".to_string(),
    }
}

fn oke(e: Epoch) -> Option<String> {
    Some(format!("ok {}", e2s(e)))
}

fn fields(t: (i32, u8, u8, u8, u8, u8, u32)) -> String {
    format!("ok {} {} {} {} {} {} {}", t.0, t.1, t.2, t.3, t.4, t.5, t.6)
}

pub fn exec(op: &str, a: &[&str]) -> Option<String> {
    match op {
        // ---- C08
        "greg" => Some(res_e(Epoch::maybe_from_gregorian(
            i32a(a[0]), u8a(a[1]), u8a(a[2]), u8a(a[3]), u8a(a[4]), u8a(a[5]), u32a(a[6]), s2ts(a[7]),
        ))),
        "greg_valid" => Some(format!(
            "ok {}",
            b2s(hifitime::is_gregorian_valid(
                i32a(a[0]), u8a(a[1]), u8a(a[2]), u8a(a[3]), u8a(a[4]), u8a(a[5]), u32a(a[6])
            ))
        )),
        "greg_maybe_tai" => Some(res_e(Epoch::maybe_from_gregorian_tai(
            i32a(a[0]), u8a(a[1]), u8a(a[2]), u8a(a[3]), u8a(a[4]), u8a(a[5]), u32a(a[6]),
        ))),
        "greg_maybe_utc" => Some(res_e(Epoch::maybe_from_gregorian_utc(
            i32a(a[0]), u8a(a[1]), u8a(a[2]), u8a(a[3]), u8a(a[4]), u8a(a[5]), u32a(a[6]),
        ))),
        "greg_from" => oke(Epoch::from_gregorian(
            i32a(a[0]), u8a(a[1]), u8a(a[2]), u8a(a[3]), u8a(a[4]), u8a(a[5]), u32a(a[6]), s2ts(a[7]),
        )),
        "greg_from_tai" => oke(Epoch::from_gregorian_tai(
            i32a(a[0]), u8a(a[1]), u8a(a[2]), u8a(a[3]), u8a(a[4]), u8a(a[5]), u32a(a[6]),
        )),
        "greg_from_utc" => oke(Epoch::from_gregorian_utc(
            i32a(a[0]), u8a(a[1]), u8a(a[2]), u8a(a[3]), u8a(a[4]), u8a(a[5]), u32a(a[6]),
        )),
        "greg_midnight" => oke(Epoch::from_gregorian_at_midnight(i32a(a[0]), u8a(a[1]), u8a(a[2]), s2ts(a[3]))),
        "greg_noon" => oke(Epoch::from_gregorian_at_noon(i32a(a[0]), u8a(a[1]), u8a(a[2]), s2ts(a[3]))),
        "greg_tai_midnight" => oke(Epoch::from_gregorian_tai_at_midnight(i32a(a[0]), u8a(a[1]), u8a(a[2]))),
        "greg_tai_noon" => oke(Epoch::from_gregorian_tai_at_noon(i32a(a[0]), u8a(a[1]), u8a(a[2]))),
        "greg_utc_midnight" => oke(Epoch::from_gregorian_utc_at_midnight(i32a(a[0]), u8a(a[1]), u8a(a[2]))),
        "greg_utc_noon" => oke(Epoch::from_gregorian_utc_at_noon(i32a(a[0]), u8a(a[1]), u8a(a[2]))),
        "greg_hms" => oke(Epoch::from_gregorian_hms(
            i32a(a[0]), u8a(a[1]), u8a(a[2]), u8a(a[3]), u8a(a[4]), u8a(a[5]), s2ts(a[6]),
        )),
        "greg_tai_hms" => oke(Epoch::from_gregorian_tai_hms(i32a(a[0]), u8a(a[1]), u8a(a[2]), u8a(a[3]), u8a(a[4]), u8a(a[5]))),
        "greg_utc_hms" => oke(Epoch::from_gregorian_utc_hms(i32a(a[0]), u8a(a[1]), u8a(a[2]), u8a(a[3]), u8a(a[4]), u8a(a[5]))),
        "greg_month" => {
            // all 31 day numbers of one month at one time of day: epoch, or `x` for an error
            let (y, m) = (i32a(a[0]), u8a(a[1]));
            let (h, mi, s, ns, ts) = (u8a(a[2]), u8a(a[3]), u8a(a[4]), u32a(a[5]), s2ts(a[6]));
            let mut o = String::from("ok");
            for d in 1..=31u8 {
                match Epoch::maybe_from_gregorian(y, m, d, h, mi, s, ns, ts) {
                    Ok(e) => {
                        o.push(' ');
                        o.push_str(&d2s(e.duration));
                        assert!(e.time_scale == ts);
                    }
                    Err(_) => o.push_str(" x"),
                }
            }
            Some(o)
        }
        // ---- C09
        "display" => Some(format!("ok {}", str2hex(&format!("{}", s2e(a[0]))))),
        "to_greg_str" => {
            let e = s2e(a[0]);
            Some(format!("ok {}", str2hex(&e.to_gregorian_str(e.time_scale))))
        }
        "to_greg_tai" => {
            let e = s2e(a[0]);
            assert!(e.time_scale == TimeScale::TAI);
            Some(fields(e.to_gregorian_tai()))
        }
        "to_greg_utc" => {
            let e = s2e(a[0]);
            assert!(e.time_scale == TimeScale::UTC);
            Some(fields(e.to_gregorian_utc()))
        }
        "greg_rt_tai" => {
            let e = s2e(a[0]);
            assert!(e.time_scale == TimeScale::TAI);
            let (y, m, d, h, mi, s, ns) = e.to_gregorian_tai();
            Some(res_e(Epoch::maybe_from_gregorian_tai(y, m, d, h, mi, s, ns)))
        }
        "greg_rt_utc" => {
            let e = s2e(a[0]);
            assert!(e.time_scale == TimeScale::UTC);
            let (y, m, d, h, mi, s, ns) = e.to_gregorian_utc();
            Some(res_e(Epoch::maybe_from_gregorian_utc(y, m, d, h, mi, s, ns)))
        }
        "greg_rt" => {
            // any scale: the text form read back field by field (fixed columns from the right; the
            // parser of C10 is not involved), then rebuilt in the same scale
            let e = s2e(a[0]);
            let s = format!("{}", e);
            let (body, _scale) = s.rsplit_once(' ').unwrap();
            let (date, time) = body.split_once('T').unwrap();
            let y: i32 = date[..date.len() - 6].parse().unwrap();
            let m: u8 = date[date.len() - 5..date.len() - 3].parse().unwrap();
            let d: u8 = date[date.len() - 2..].parse().unwrap();
            let h: u8 = time[0..2].parse().unwrap();
            let mi: u8 = time[3..5].parse().unwrap();
            let sec: u8 = time[6..8].parse().unwrap();
            let ns: u32 = if time.len() > 8 { time[9..].parse().unwrap() } else { 0 };
            Some(res_e(Epoch::maybe_from_gregorian(y, m, d, h, mi, sec, ns, e.time_scale)))
        }
        // C09, second reading ("the fields of an epoch built from valid fields are those fields") through EVERY constructor:
        // a[0] names the constructor op of C08, the rest are its arguments; the epoch it builds is decomposed through the
        // default text form (fixed columns from the right) -> y m d h mi s ns SCALE
        "fields_rt" => {
            let built = exec(a[0], &a[1..])?;
            let e = s2e(built.strip_prefix("ok ")?);
            let s = format!("{}", e);
            let (body, scale) = s.rsplit_once(' ').unwrap();
            let (date, time) = body.split_once('T').unwrap();
            let y: i64 = date[..date.len() - 6].parse().unwrap();
            let ns: u32 = if time.len() > 8 { time[9..].parse().unwrap() } else { 0 };
            Some(format!(
                "ok {} {} {} {} {} {} {} {}",
                y, &date[date.len() - 5..date.len() - 3].parse::<u8>().unwrap(), &date[date.len() - 2..].parse::<u8>().unwrap(),
                &time[0..2].parse::<u8>().unwrap(), &time[3..5].parse::<u8>().unwrap(), &time[6..8].parse::<u8>().unwrap(), ns, scale
            ))
        }
        "fmt_debug" => {
            let e = s2e(a[0]);
            assert!(e.time_scale == TimeScale::UTC);
            Some(format!("ok {}", str2hex(&format!("{:?}", e))))
        }
        "fmt_x" => {
            let e = s2e(a[0]);
            assert!(e.time_scale == TimeScale::TAI);
            Some(format!("ok {}", str2hex(&format!("{:x}", e))))
        }
        "fmt_X" => {
            let e = s2e(a[0]);
            assert!(e.time_scale == TimeScale::TT);
            Some(format!("ok {}", str2hex(&format!("{:X}", e))))
        }
        "fmt_e" => {
            let e = s2e(a[0]);
            assert!(e.time_scale == TimeScale::TDB);
            Some(format!("ok {}", str2hex(&format!("{:e}", e))))
        }
        "fmt_E" => {
            let e = s2e(a[0]);
            assert!(e.time_scale == TimeScale::ET);
            Some(format!("ok {}", str2hex(&format!("{:E}", e))))
        }
        "year" => Some(format!("ok {}", s2e(a[0]).year())),
        "month_name" => Some(format!("ok {}", str2hex(&format!("{:?}", s2e(a[0]).month_name())))),
        "dur_in_year" => Some(format!("ok {}", d2s(s2e(a[0]).duration_in_year()))),
        "doy" => Some(format!("ok {}", f2s(s2e(a[0]).day_of_year()))),
        "ydoy" => {
            let (y, d) = s2e(a[0]).year_days_of_year();
            Some(format!("ok {} {}", y, f2s(d)))
        }
        "display_days" => {
            // Display of `n` epochs one day apart starting at the given one (day stepping done here
            // on the integer count, not with hifitime)
            let e = s2e(a[0]);
            let n: i128 = a[1].parse().unwrap();
            let (c, ns) = e.duration.to_parts();
            let t0 = c as i128 * NPC + ns as i128;
            let mut o = String::from("ok");
            for i in 0..n {
                let (c, ns) = parts_of_total(t0 + i * NPD);
                let ei = Epoch::from_duration(Duration::from_parts(c as i16, ns as u64), e.time_scale);
                o.push(' ');
                o.push_str(&str2hex(&format!("{}", ei)));
            }
            Some(o)
        }
        _ => None,
    }
}

pub fn dump_consts(m: &mut serde_json::Map<String, serde_json::Value>) {
    let names: Vec<String> = (0u8..=13).map(|u| format!("{:?}", hifitime::MonthName::from(u))).collect();
    m.insert("MONTH_NAME_OF_U8".into(), serde_json::json!(names));
}

#[cfg(test)]
mod t {
    use super::*;
    #[test]
    fn day_count_by_walking() {
        // the closed leap count used by the generator agrees with walking the calendar day by day
        let (mut y, mut m, mut d) = (1i64, 1i64, 1i64);
        let mut n = days_from_1900(1, 1, 1);
        while y < 10000 {
            assert_eq!(days_from_1900(y, m, d), n);
            n += 1;
            d += 1;
            if d > month_len(y, m) {
                d = 1;
                m += 1;
                if m > 12 {
                    m = 1;
                    y += 1;
                }
            }
        }
        assert_eq!(days_from_1900(1900, 1, 1), 0);
    }
}
