//! C18: Duration <-> f64 interop (Unit * f64, Duration::from_<unit>, compose_f64, to_seconds,
//! to_unit, Duration * f64).
use crate::codec::*;
use crate::gen::*;
use crate::props::f64ops::{f64_class, f64_finite, fc2s};
use crate::rng::Rng;
use hifitime::{Duration, TimeUnits};
use std::io::Write;

fn h(x: f64) -> String {
    format!("{:016x}", x.to_bits())
}

fn ulps(x: f64, k: i64) -> f64 {
    let b = x.to_bits();
    let mag = (b & 0x7fff_ffff_ffff_ffff) as i64;
    let m2 = (mag + k).clamp(0, 0x7fef_ffff_ffff_ffff);
    f64::from_bits((b & 0x8000_0000_0000_0000) | m2 as u64)
}

fn unit_factor_f(u: &str) -> f64 {
    match u {
        "ns" => 1.0,
        "us" => 1e3,
        "ms" => 1e6,
        "s" => 1e9,
        "min" => 6e10,
        "h" => 3.6e12,
        "d" => 8.64e13,
        "wk" => 6.048e14,
        "cy" => 3.15576e18,
        _ => unreachable!(),
    }
}

/// a float count of unit `u`, aimed at the structural boundaries of `impl Mul<f64> for Unit`
fn count_for_unit(r: &mut Rng, u: &str) -> f64 {
    let f = unit_factor_f(u);
    let s = if r.chance(1, 2) { -1.0 } else { 1.0 };
    match r.below(14) {
        // the bound check `q >= f64::MAX / factor`
        0 => s * ulps(f64::MAX / f, -(r.below(4) as i64)),
        // product near the i64 / i128 cast split (2^63) and the i128 limit (2^127)
        1 => s * ulps(9223372036854775808.0 / f, r.range_i64(-3, 3)),
        2 => s * ulps(1.7014118346046923e38 / f, r.range_i64(-3, 3)),
        // product near the Duration saturation thresholds
        3 => s * ulps(1.0340794368e23 / f, r.range_i64(-3, 3)),
        // whole numbers of nanoseconds below 2^53 (the product is exact)
        4 | 5 => {
            let b = 1 + r.below(53) as u32;
            let n = r.below(1u64 << b) as f64;
            s * (n / f)
        }
        // whole counts of the unit, and counts with one, two, three decimals
        6 => s * (r.below(100_000) as f64),
        7 => s * (r.below(10_000_000) as f64) / *r.pick(&[10.0, 100.0, 1000.0, 1e6, 1e9]),
        // within an ulp of an integer
        8 => {
            let b = r.below(40) as u32;
            let n = r.below(1u64 << b) as f64;
            s * ulps(n, r.range_i64(-1, 1))
        }
        // a century boundary
        9 => s * ulps((r.below(40000) as f64) * 3.15576e18 / f, r.range_i64(-2, 2)),
        // non-finite (no-panic part)
        10 if r.chance(1, 3) => *r.pick(&[f64::INFINITY, f64::NEG_INFINITY, f64::NAN]),
        _ => f64_class(r),
    }
}

/// a total nanosecond count of magnitude at most 10 000 years (quantifier of Duration * f64)
fn total_10ky(r: &mut Rng) -> i128 {
    const LIM: i128 = 10_000 * 36525 * 864_000_000_000; // 10 000 Julian years in ns
    let s: i128 = if r.chance(1, 2) { 1 } else { -1 };
    let t = match r.below(8) {
        0 => s * (LIM - r.below(3) as i128),
        1 => s * small_delta(r),
        2 => s * (r.below(101) as i128 * NPC + small_delta(r) * if r.chance(1, 2) { 1 } else { -1 }),
        3 => s * (r.below(1_000_000_000_000) as i128),
        4 => s * (r.below(10_000 * 365) as i128 * 86_400_000_000_000 + r.below(86_400_000_000_000) as i128),
        5 => *r.pick(&[0i128, 1, -1, NPC, -NPC, 1_000_000_000, 86_400_000_000_000, -86_400_000_000_000]),
        _ => total(r),
    };
    t.clamp(-LIM, LIM)
}

/// a finite factor for Duration * f64
fn factor_f64(r: &mut Rng) -> f64 {
    let s = if r.chance(1, 2) { -1.0 } else { 1.0 };
    match r.below(14) {
        0 => *r.pick(&[0.0, -0.0, 1.0, -1.0, 0.5, 2.0, 10.0, 0.1, -0.1, 1e-9, 1e9, 3.0, 1.0 / 3.0]),
        // decimal fractions n / 10^k (what the precision search is written for)
        1 | 2 | 3 => {
            let k = 1 + r.below(15) as u32;
            let n = r.below(10u64.pow(k)) as f64;
            s * n / 10f64.powi(r.below(20) as i32)
        }
        // around f64::EPSILON, the cut-off of the search
        4 => s * ulps(f64::EPSILON, r.range_i64(-3, 3)) * *r.pick(&[1.0, 0.5, 2.0, 0.1, 10.0]),
        // tiny
        5 => s * 10f64.powi(-(r.below(320) as i32)) * (1.0 + r.below(1000) as f64 / 1000.0),
        // huge
        6 => s * 10f64.powi(r.below(308) as i32) * (1.0 + r.below(1000) as f64 / 1000.0),
        // integers and integers +/- 1 ulp
        7 => {
            let b = r.below(60) as u32;
            let n = r.below(1u64 << b) as f64;
            s * ulps(n, r.range_i64(-1, 1))
        }
        // random mantissa in the human range
        8 | 9 => {
            let e = r.range_i64(0x3ff - 60, 0x3ff + 60) as u64;
            f64::from_bits((r.below(2) << 63) | (e << 52) | r.below(1u64 << 52))
        }
        _ => f64_finite(r),
    }
}

pub fn inputs_c18(r: &mut Rng, n: usize, _tier: &str, out: &mut dyn Write) {
    for _ in 0..n {
        let u = unit_name(r);
        match r.below(33) {
            0..=7 => writeln!(out, "unit_mul_f64 {} {}", u, h(count_for_unit(r, u))).unwrap(),
            8 => writeln!(out, "f64_mul_unit {} {}", h(count_for_unit(r, u)), u).unwrap(),
            9 => writeln!(out, "tu_f64 {} {}", u, h(count_for_unit(r, u))).unwrap(),
            10 | 11 => {
                let (op, un) = *r.pick(&[
                    ("from_days", "d"),
                    ("from_hours", "h"),
                    ("from_seconds", "s"),
                    ("from_milliseconds", "ms"),
                    ("from_microseconds", "us"),
                    ("from_nanoseconds", "ns"),
                ]);
                writeln!(out, "{} {}", op, h(count_for_unit(r, un))).unwrap()
            }
            12..=14 => writeln!(out, "to_seconds {}", dstr(total(r))).unwrap(),
            15 | 19 => {
                // monotonicity: two durations a few nanoseconds (or one float ulp) apart
                let a = total(r);
                let b = match r.below(6) {
                    0 => a + 1,
                    1 => a - 1,
                    2 => a + r.range_i64(-1000, 1000) as i128,
                    3 => a + r.range_i64(-2_000_000_000, 2_000_000_000) as i128,
                    4 => partner(r, a),
                    _ => a + (a.abs() >> 52) * r.range_i64(-3, 3) as i128,
                }
                .clamp(DMIN, DMAX);
                if r.chance(1, 2) {
                    writeln!(out, "to_seconds2 {} {}", dstr(a), dstr(b)).unwrap()
                } else {
                    writeln!(out, "to_unit2 {} {} {}", dstr(a), dstr(b), u).unwrap()
                }
            }
            16..=18 => writeln!(out, "to_unit {} {}", dstr(total(r)), u).unwrap(),
            20 => writeln!(out, "{} {}", r.pick(&["in_seconds", "from_seconds_u"]), u).unwrap(),
            21 => {
                // the product falls in the LAST representable century (between 32767 and 32768 centuries, where
                // Duration::MAX = (32767, one century of ns) and a saturation test written in whole centuries is one century
                // early: seeded change C18-7) or in the first one, or just beyond either bound; any operand up to 10 000 years
                let d = total_10ky(r);
                if d == 0 {
                    continue;
                }
                let target = match r.below(4) {
                    0 => DMAX - r.below(NPC as u64) as i128,
                    1 => DMIN + r.below(NPC as u64) as i128,
                    2 => DMAX - (r.below(3) as i128) * NPC - r.below(NPC as u64) as i128,
                    _ => if r.chance(1, 2) { DMAX + r.below(NPC as u64) as i128 } else { DMIN - r.below(NPC as u64) as i128 },
                };
                let q = target as f64 / d as f64;
                writeln!(out, "dmulf {} {}", dstr(d), h(q)).unwrap()
            }
            22 | 23 => {
                // the product (or the intermediate integer product total_ns x scaled factor) sits at a word-size limit:
                // 2^63, 2^64, 2^62, 2^53 ns, a few hundred ns either side, for "decimal" factors with few digits and random
                // ones (seeded change C18-8: a 64-bit fast path guarded by a ROUNDED estimate of the product, overflowing
                // for products a few hundred ns above 2^63)
                let q: f64 = match r.below(4) {
                    0 => *r.pick(&[253.0, 1.03, 10.7, 3.0, 7.5, 1e3, 0.001, 1.5, 0.1, 12.5, 99.9, 1e6, 2.5e-4]),
                    1 => (1 + r.below(100_000)) as f64 / *r.pick(&[1.0, 10.0, 100.0, 1000.0]),
                    2 => (1 + r.below(1000)) as f64,
                    _ => (1 + r.below(1 << 30)) as f64 / (1u64 << r.below(31)) as f64,
                };
                let lim: i128 = *r.pick(&[1i128 << 63, 1i128 << 63, 1i128 << 64, 1i128 << 62, 1i128 << 53]);
                let target = lim + r.range_i64(-300, 700) as i128;
                let d = ((target as f64) / q) as i128 + r.range_i64(-2, 2) as i128;
                let sd = if r.chance(1, 4) { -1 } else { 1 };
                if d.abs() > 100 * NPC || d == 0 {
                    continue; // the clause is about durations up to 10 000 years
                }
                writeln!(out, "dmulf {} {}", dstr(sd * d), h(if r.chance(1, 5) { -q } else { q })).unwrap()
            }
            24..=27 => writeln!(out, "{} {} {}", if r.chance(1, 3) { "fmuld" } else { "dmulf" }, dstr(total_10ky(r)), h(factor_f64(r))).unwrap(),
            32 => {
                // a tiny duration times a huge factor whose product is still representable (or just not)
                let lim = match r.below(3) { 0 => 3, 1 => 1000, _ => 20_000 };
                let d = (1 + r.below(lim)) as i128 * if r.chance(1, 4) { -1 } else { 1 };
                let target = match r.below(4) {
                    0 => 2f64.powi(60 + r.below(17) as i32) * (1.0 + (r.below(1 << 20) as f64) / (1u64 << 20) as f64),
                    1 => DMAX as f64 * (1.0 + (r.range_i64(-1000, 1000) as f64) * 1e-6),
                    2 => 2f64.powi(63 + r.below(2) as i32) * d.abs() as f64, // the factor itself is 2^63 or 2^64
                    _ => (r.below(1 << 53) as f64) * 2f64.powi(10 + r.below(14) as i32),
                };
                let q = target / d.abs() as f64;
                // (seeded change C18-9: the reversed-operand impl f64 * Duration with a whole-factor fast path casting the
                // factor `as i64`: wrong for |q| >= 2^63 on tiny durations) -- both operand orders
                writeln!(out, "{} {} {}", if r.chance(1, 2) { "fmuld" } else { "dmulf" }, dstr(d), h(if r.chance(1, 4) { -q } else { q })).unwrap()
            }
            28 => {
                // products that are whole numbers of nanoseconds although the factor has many binary digits:
                // d = k * 2^j ns, q = base + i * 2^-j (the clause "exactly the product whenever that is a whole number
                // of nanoseconds below 2^53"; recorded finding D42)
                let j = 1 + r.below(40) as i32;
                let k = 1 + r.below(1 << 12) as i128;
                let d = (k << j) * if r.chance(1, 4) { -1 } else { 1 };
                let base = r.below(200) as f64;
                let q = base + (r.below(1 << j.min(30)) as f64) * 2f64.powi(-j);
                writeln!(out, "dmulf {} {}", dstr(d), h(if r.chance(1, 4) { -q } else { q })).unwrap()
            }
            _ => {
                let sign = r.range_i64(-2, 2);
                let names = ["d", "h", "min", "s", "ms", "us", "ns"];
                let mut fs = Vec::new();
                for nm in names.iter() {
                    let x = match r.below(6) {
                        0 => 0.0,
                        1 => r.below(1000) as f64,
                        2 => (r.below(100_000) as f64) / 100.0,
                        3 => {
                            let c = count_for_unit(r, nm);
                            if c.is_finite() {
                                c
                            } else {
                                1.5
                            }
                        }
                        _ => (r.below(1_000_000) as f64) * *r.pick(&[1.0, -1.0, 0.001, 1e-6]),
                    };
                    fs.push(h(x));
                }
                writeln!(out, "compose_f64 {} {}", sign, fs.join(" ")).unwrap()
            }
        }
    }
}

pub fn exec(op: &str, a: &[&str]) -> Option<String> {
    use std::hint::black_box as bb;
    let okd = |d: Duration| Some(format!("ok {}", d2s(d)));
    let okf = |x: f64| Some(format!("ok {}", fc2s(x)));
    match op {
        "unit_mul_f64" => okd(s2u(a[0]) * bb(s2f(a[1]))),
        "f64_mul_unit" => okd(bb(s2f(a[0])) * s2u(a[1])),
        "tu_f64" => {
            let x = bb(s2f(a[1]));
            okd(match a[0] {
                "ns" => x.nanoseconds(),
                "us" => x.microseconds(),
                "ms" => x.milliseconds(),
                "s" => x.seconds(),
                "min" => x.minutes(),
                "h" => x.hours(),
                "d" => x.days(),
                "wk" => x.weeks(),
                "cy" => x.centuries(),
                _ => return None,
            })
        }
        "from_days" => okd(Duration::from_days(bb(s2f(a[0])))),
        "from_hours" => okd(Duration::from_hours(bb(s2f(a[0])))),
        "from_seconds" => okd(Duration::from_seconds(bb(s2f(a[0])))),
        "from_milliseconds" => okd(Duration::from_milliseconds(bb(s2f(a[0])))),
        "from_microseconds" => okd(Duration::from_microseconds(bb(s2f(a[0])))),
        "from_nanoseconds" => okd(Duration::from_nanoseconds(bb(s2f(a[0])))),
        "to_seconds" => okf(s2d(a[0]).to_seconds()),
        "to_unit" => okf(s2d(a[0]).to_unit(s2u(a[1]))),
        "to_seconds2" => Some(format!("ok {} {}", fc2s(s2d(a[0]).to_seconds()), fc2s(s2d(a[1]).to_seconds()))),
        "to_unit2" => Some(format!(
            "ok {} {}",
            fc2s(s2d(a[0]).to_unit(s2u(a[2]))),
            fc2s(s2d(a[1]).to_unit(s2u(a[2])))
        )),
        "in_seconds" => okf(s2u(a[0]).in_seconds()),
        "from_seconds_u" => okf(s2u(a[0]).from_seconds()),
        "dmulf" => okd(s2d(a[0]) * bb(s2f(a[1]))),
        "fmuld" => okd(bb(s2f(a[1])) * s2d(a[0])), // the reversed-operand impl (f64 * Duration), same arguments
        "compose_f64" => {
            let sign: i8 = a[0].parse().unwrap();
            let f: Vec<f64> = a[1..8].iter().map(|s| bb(s2f(s))).collect();
            okd(Duration::compose_f64(sign, f[0], f[1], f[2], f[3], f[4], f[5], f[6]))
        }
        _ => None,
    }
}

pub fn dump_consts(m: &mut serde_json::Map<String, serde_json::Value>) {
    use hifitime::*;
    let mut fc = serde_json::Map::new();
    macro_rules! put_f {
        ($name:ident) => {
            fc.insert(stringify!($name).to_string(), serde_json::json!(format!("{:016x}", ($name as f64).to_bits())));
        };
    }
    put_f!(SECONDS_PER_CENTURY);
    put_f!(SECONDS_PER_DAY);
    put_f!(SECONDS_PER_HOUR);
    put_f!(SECONDS_PER_MINUTE);
    put_f!(DAYS_PER_CENTURY);
    put_f!(DAYS_PER_WEEK);
    m.insert("DURFLOAT_F64_CONSTS".into(), serde_json::Value::Object(fc));
    let mut us = serde_json::Map::new();
    for (u, n) in crate::codec::UNITS.iter() {
        us.insert(n.to_string(), serde_json::json!(format!("{:016x}", u.in_seconds().to_bits())));
    }
    m.insert("UNIT_IN_SECONDS_BITS".into(), serde_json::Value::Object(us));
}
