//! C10 (epoch text and serde round trip) and C13E (totality of the epoch / enum parsers).
//!
//! The generators render their texts with their own formatting and their own calendar arithmetic
//! (`days_from_1900`, month lengths), never with hifitime's formatters; each parse line of C10 also
//! carries the fields that were rendered so that the Lean spec can re-render and judge.
//!
//! Ops (strings are hex of UTF-8, `-` = empty):
//!   edisplay E -> ok S          rfc3339 E -> ok S         gregstr E TS -> ok S      isofmt E -> ok S
//!   ejson E -> ok S             ert KIND E -> ok E | err  (KIND: display gregstr isofmt json rfc3339)
//!   eparse|gregparse|ejsonparse S FORM y mo d h mi s nd frac sg oh om TS -> ok E | err
//!        FORM: D  `…T… TS`   Z `…Z`   ZT `…Z TS`   O `…±hh:mm`   OT `…±hh:mm TS`
//!        nd = number of fractional digits (0: no point), frac = their value, sg = p|m
//!   nparse S PREFIX DEC SFX -> ok E | err      (DEC: hex of the decimal numeral, SFX: the spelled scale)
//!   p_epoch S | p_greg S -> ok E | err          p_ts S -> ok TS | err
//!   p_wd S -> ok 0..6 | err                     p_month S -> ok 1..12 | err
//!   elex_i32 S | elex_i64 S -> ok I | err       elex_f64 S -> ok F | err    (contract of lexical_core)
use crate::codec::*;
use crate::gen::*;
use crate::props::calendar::{days_from_1900, month_len};
use crate::rng::Rng;
use core::str::FromStr;
use hifitime::efmt::consts::ISO8601;
use hifitime::efmt::Formatter;
use hifitime::{Epoch, MonthName, TimeScale, Weekday};
use std::io::Write;

const NPD: i128 = 86_400_000_000_000;
const SEC: i128 = 1_000_000_000;

const YEARS: [i64; 30] = [
    1, 2, 3, 4, 5, 99, 100, 101, 399, 400, 401, 999, 1000, 1582, 1600, 1899, 1900, 1901, 1971, 1972, 1980, 1999, 2000, 2001, 2016, 2017,
    2024, 2100, 9998, 9999,
];
const SCALE_NAMES: [&str; 9] = ["TAI", "TT", "ET", "TDB", "UTC", "GPST", "GST", "BDT", "QZSST"];

/// ns from 1900-01-01T00:00:00 to the reference date-time of the scale's Gregorian count
fn ref_offset_ns(ts: &str) -> i128 {
    match ts {
        "ET" | "TDB" => days_from_1900(2000, 1, 1) as i128 * NPD + NPD / 2,
        "GPST" | "QZSST" => days_from_1900(1980, 1, 6) as i128 * NPD,
        "GST" => days_from_1900(1999, 8, 22) as i128 * NPD,
        "BDT" => days_from_1900(2006, 1, 1) as i128 * NPD,
        _ => 0,
    }
}

#[derive(Clone, Copy)]
struct F {
    y: i64,
    mo: i64,
    d: i64,
    h: i64,
    mi: i64,
    s: i64,
}

fn pick_year(r: &mut Rng) -> i64 {
    match r.below(10) {
        0..=2 => *r.pick(&YEARS),
        3 => r.range_i64(1890, 2110),
        _ => r.range_i64(1, 9999),
    }
}

fn pick_tod_s(r: &mut Rng) -> i64 {
    match r.below(10) {
        8 | 9 => (super::calendar::tod_field_pattern(r) / 1_000_000_000) as i64,
        0 => 0,
        1 => 86399,
        2 => 43200,
        3 => 3600 * r.below(24) as i64,
        4 => 3600 * r.below(24) as i64 + 3599,
        5 => 60 * r.below(1440) as i64 + 59,
        _ => r.below(86400) as i64,
    }
}

fn pick_fields(r: &mut Rng) -> F {
    let y = pick_year(r);
    let mo = match r.below(4) {
        0 => *r.pick(&[1i64, 2, 3, 12]),
        _ => 1 + r.below(12) as i64,
    };
    let l = month_len(y, mo);
    let d = match r.below(6) {
        0 => 1,
        1 => l,
        2 => 28.min(l),
        _ => 1 + r.below(l as u64) as i64,
    };
    let t = pick_tod_s(r);
    F { y, mo, d, h: t / 3600, mi: (t / 60) % 60, s: t % 60 }
}

/// (number of fractional digits, their value)
fn pick_frac(r: &mut Rng) -> (usize, u64) {
    let nd = match r.below(6) {
        0 => 0,
        1 => 9,
        _ => r.below(10) as usize,
    };
    if nd == 0 {
        return (0, 0);
    }
    let m = 10u64.pow(nd as u32);
    let v = match r.below(8) {
        0 => 0,
        1 => m - 1,
        2 => 1,
        3 => m / 10,     // a leading digit only: 1000…
        4 => m / 2,
        5 => r.below(10.min(m)), // leading zeros
        _ => r.below(m),
    };
    (nd, v)
}

fn render(form: &str, f: F, nd: usize, frac: u64, sg: char, oh: i64, om: i64, ts: &str) -> String {
    let mut s = format!("{:04}-{:02}-{:02}T{:02}:{:02}:{:02}", f.y, f.mo, f.d, f.h, f.mi, f.s);
    if nd > 0 {
        s.push('.');
        s.push_str(&format!("{:0width$}", frac, width = nd));
    }
    let off = format!("{}{:02}:{:02}", if sg == 'm' { '-' } else { '+' }, oh, om);
    match form {
        "D" => {
            s.push(' ');
            s.push_str(ts)
        }
        "Z" => s.push('Z'),
        "ZT" => {
            s.push_str("Z ");
            s.push_str(ts)
        }
        "O" => s.push_str(&off),
        "OT" => {
            s.push_str(&off);
            s.push(' ');
            s.push_str(ts)
        }
        "S" => {
            // space instead of `T` (accepted by the parser; outside the statement of C10)
            s = s.replacen('T', " ", 1);
            s.push(' ');
            s.push_str(ts)
        }
        _ => {} // "N": nothing after the seconds
    }
    s
}

/// every 8th parse line is padded with leading and/or trailing blanks (the parsers trim their input; a seeded change that
/// used the untrimmed length dropped the last field of such texts): the driver then demands "error or the denoted instant"
static PAD: std::sync::atomic::AtomicUsize = std::sync::atomic::AtomicUsize::new(0);

fn parse_line(out: &mut dyn Write, op: &str, text: &str, form: &str, f: F, nd: usize, frac: u64, sg: char, oh: i64, om: i64, ts: &str) {
    let k = PAD.fetch_add(1, std::sync::atomic::Ordering::Relaxed);
    let padded;
    let text = if k % 8 == 7 && op != "ejsonparse" {
        padded = match (k / 8) % 3 {
            0 => format!(" {}", text),
            1 => format!("{} ", text),
            _ => format!("  {}   ", text),
        };
        padded.as_str()
    } else {
        text
    };
    writeln!(
        out,
        "{} {} {} {} {} {} {} {} {} {} {} {} {} {} {}",
        op,
        str2hex(text),
        form,
        f.y,
        f.mo,
        f.d,
        f.h,
        f.mi,
        f.s,
        nd,
        frac,
        sg,
        oh,
        om,
        ts
    )
    .unwrap();
}

fn total_of(f: F, ns: i128, ts: &str) -> i128 {
    days_from_1900(f.y, f.mo, f.d) as i128 * NPD + (f.h * 3600 + f.mi * 60 + f.s) as i128 * SEC + ns - ref_offset_ns(ts)
}

fn in_years_1_9999(total: i128, ts: &str) -> bool {
    let abs = total + ref_offset_ns(ts);
    abs >= days_from_1900(1, 1, 1) as i128 * NPD && abs < days_from_1900(10000, 1, 1) as i128 * NPD
}

/// an epoch (total ns in its own scale) whose calendar year in that scale is 0001..9999
fn epoch_c10(r: &mut Rng, ts: &str) -> i128 {
    if r.chance(1, 3) {
        for _ in 0..8 {
            let t = crate::props::epoch::epoch_total(r, ts);
            if in_years_1_9999(t, ts) {
                return t;
            }
        }
    }
    let f = pick_fields(r);
    let ns: i128 = match r.below(8) {
        0 | 1 => 0,
        2 => 999_999_999,
        3 => 1,
        4 => *r.pick(&[238i128, 239, 500, 1000, 100_000_000, 120_000_000, 999_999_000]),
        _ => r.below(1_000_000_000) as i128,
    };
    total_of(f, ns, ts)
}

fn estr(t: i128, ts: &str) -> String {
    format!("{}:{}", dstr(t), ts)
}

fn pick_offset(r: &mut Rng) -> (char, i64, i64) {
    let sg = if r.chance(1, 2) { 'p' } else { 'm' };
    let (oh, om) = match r.below(8) {
        0 => (0, 0),
        1 => (23, 59),
        2 => (r.below(10) as i64, 0),
        3 => (10 + r.below(14) as i64, 0),
        4 => (r.below(24) as i64, *r.pick(&[0i64, 15, 30, 45, 59])),
        _ => (r.below(24) as i64, r.below(60) as i64),
    };
    (sg, oh, om)
}

/// a decimal numeral for `v` units with `dec` decimals (`v` is in units of 10^-dec)
fn decimal(v: i128, dec: u32) -> String {
    let neg = v < 0;
    let a = v.unsigned_abs();
    let p = 10u128.pow(dec);
    let mut s = String::new();
    if neg {
        s.push('-');
    }
    s.push_str(&(a / p).to_string());
    if dec > 0 {
        s.push('.');
        s.push_str(&format!("{:0width$}", a % p, width = dec as usize));
    }
    s
}

/// every prefix with every spelling `TimeScale::from_str` knows: the nine Display names and the RINEX
/// spellings GPS GAL BDS QZSS.  The property requires {JD, MJD, SEC} x {TAI, TT, UTC, GPST, GST, BDT, QZSST}
/// (uniform scales and UTC, written with the Display name); the other pairs are judged when accepted.
const NUM_PREFIXES: [&str; 3] = ["JD", "MJD", "SEC"];
const NUM_SUFFIXES: [&str; 13] = ["TAI", "TT", "ET", "TDB", "UTC", "GPST", "GPS", "GST", "GAL", "BDT", "BDS", "QZSST", "QZSS"];

fn scale_of_suffix(sfx: &str) -> &'static str {
    match sfx {
        "GPS" | "GPST" => "GPST",
        "GAL" | "GST" => "GST",
        "BDS" | "BDT" => "BDT",
        "QZSS" | "QZSST" => "QZSST",
        "TAI" => "TAI",
        "UTC" => "UTC",
        "TT" => "TT",
        "ET" => "ET",
        _ => "TDB",
    }
}

/// one numeric-form line: a value inside the years 0001-9999 of the scale's calendar
fn numeric_line(r: &mut Rng, out: &mut dyn Write) {
    let prefix = *r.pick(&NUM_PREFIXES);
    let sfx = *r.pick(&NUM_SUFFIXES);
    numeric_line_for(r, out, prefix, sfx)
}

fn numeric_line_for(r: &mut Rng, out: &mut dyn Write, prefix: &str, sfx: &str) {
    let ts = scale_of_suffix(sfx);
    let f = pick_fields(r);
    // nanoseconds since 1900-01-01T00:00:00 of the scale's calendar, aimed at day / half day / second / ms / anything
    let sub: i128 = match r.below(6) {
        0 => 0,
        1 => 500_000_000,
        2 => (r.below(1000) as i128) * 1_000_000,
        _ => r.below(1_000_000_000) as i128,
    };
    let f = match r.below(5) {
        0 => F { h: 0, mi: 0, s: 0, ..f },
        1 => F { h: 12, mi: 0, s: 0, ..f },
        _ => f,
    };
    let sub = if f.h % 12 == 0 && f.mi == 0 && f.s == 0 && r.chance(1, 2) { 0 } else { sub };
    let abs = total_of(f, sub, "TAI");
    let dec: u32 = match r.below(6) {
        0 => 0,
        1 => 1,
        2 => 3,
        3 => 9,
        4 => r.below(18) as u32,
        _ => 6,
    };
    let p = 10i128.pow(dec);
    // numerals around zero (one line in eight for MJD / SEC, whose zero lies inside the years 0001-9999): -0.x, 0.x, -0,
    // +-1.x with few or many (16-17) digits -- a whole part written `-0` carries the sign of the fraction (two seeded
    // changes, C10-9 and C17-10, split the numeral into whole part and fraction and lost it)
    if prefix != "JD" && r.chance(1, 8) {
        let dec: u32 = *r.pick(&[1u32, 2, 3, 9, 15, 16, 17, 0]);
        let p = 10i128.pow(dec);
        let v = (r.below(2 * p as u64 + 1) as i128) * if r.chance(2, 3) { -1 } else { 1 };
        let text_num = if v == 0 && r.chance(1, 2) { format!("-{}", decimal(0, dec)) } else { decimal(v, dec) };
        let text = format!("{} {} {}", prefix, text_num, sfx);
        writeln!(out, "nparse {} {} {} {}", str2hex(&text), prefix, str2hex(&text_num), sfx).unwrap();
        return;
    }
    let text_num = match prefix {
        "SEC" => {
            // seconds past the scale's own reference
            let v = abs - ref_offset_ns(ts);
            decimal(v * p / SEC, dec)
        }
        "MJD" => decimal((abs + 15020 * NPD) * p / NPD, dec),
        _ => decimal((abs + 2_415_020 * NPD + NPD / 2) * p / NPD, dec),
    };
    let text_num = match r.below(12) {
        0 if !text_num.starts_with('-') => format!("+{}", text_num),
        1 => {
            // exponent notation of the same numeral: d.ddd…eK
            let neg = text_num.starts_with('-');
            let body = text_num.trim_start_matches('-');
            let (ip, fp) = match body.split_once('.') {
                Some((a, b)) => (a.to_string(), b.to_string()),
                None => (body.to_string(), String::new()),
            };
            if ip.len() > 1 {
                format!("{}{}.{}{}{}{}", if neg { "-" } else { "" }, &ip[..1], &ip[1..], fp, *r.pick(&["e", "E", "e+"]), ip.len() - 1)
            } else {
                text_num
            }
        }
        _ => text_num,
    };
    let sep2 = if sfx.len() == 2 { " " } else { *r.pick(&[" ", " ", "  "]) };
    // layout variations the parser accepts (one text in six): the numeral directly after the prefix, a tab, several
    // blanks, no blank before the scale (a seeded change that skipped one byte after the prefix was missed)
    let (sep1, sep2) = if r.chance(1, 6) {
        (*r.pick(&["", "", "  ", "\t"]), *r.pick(&[" ", "", "\t", "  "]))
    } else {
        (" ", sep2)
    };
    let text = format!("{}{}{}{}{}", prefix, sep1, text_num, sep2, sfx);
    writeln!(out, "nparse {} {} {} {}", str2hex(&text), prefix, str2hex(&text_num), sfx).unwrap();
}

// ------------------------------------------------------------------------------------ second = 60

/// days whose last UTC minute has 61 seconds (the day before each entry of data/leap-seconds.list)
const LEAP_DAYS: [(i64, i64, i64); 28] = [
    (1971, 12, 31), (1972, 6, 30), (1972, 12, 31), (1973, 12, 31), (1974, 12, 31), (1975, 12, 31), (1976, 12, 31),
    (1977, 12, 31), (1978, 12, 31), (1979, 12, 31), (1981, 6, 30), (1982, 6, 30), (1983, 6, 30), (1985, 6, 30),
    (1987, 12, 31), (1989, 12, 31), (1990, 12, 31), (1992, 6, 30), (1993, 6, 30), (1994, 6, 30), (1995, 12, 31),
    (1997, 6, 30), (1998, 12, 31), (2005, 12, 31), (2008, 12, 31), (2012, 6, 30), (2015, 6, 30), (2016, 12, 31),
];

/// the local date and minute of day that show the minute `m` (0..1440) of day (y, mo, d) with the offset `off` minutes
fn shift_minutes(y: i64, mo: i64, d: i64, m: i64, off: i64) -> (i64, i64, i64, i64) {
    let t = m + off;
    if t >= 1440 {
        if d < month_len(y, mo) {
            (y, mo, d + 1, t - 1440)
        } else if mo < 12 {
            (y, mo + 1, 1, t - 1440)
        } else {
            (y + 1, 1, 1, t - 1440)
        }
    } else if t < 0 {
        if d > 1 {
            (y, mo, d - 1, t + 1440)
        } else if mo > 1 {
            (y, mo - 1, month_len(y, mo - 1), t + 1440)
        } else {
            (y - 1, 12, 31, t + 1440)
        }
    } else {
        (y, mo, d, t)
    }
}

/// one text with second = 60. `kind`: 0 a true leap-second label in UTC without offset, 1 the same label
/// shown with a non-zero offset (RFC 3339 5.8), 2 a leap-second day 23:59:60 local with a non-zero offset
/// (the UTC label is not 23:59), 3 another scale on a leap-second day (with and without offset) or elsewhere,
/// 4 another day or minute
fn second60_line(r: &mut Rng, out: &mut dyn Write, kind: u64) {
    let (y, mo, d) = *r.pick(&LEAP_DAYS);
    let (nd, frac) = pick_frac(r);
    let op = *r.pick(&["eparse", "gregparse"]);
    let (sg, oh, om) = {
        let (sg, oh, om) = pick_offset(r);
        if oh == 0 && om == 0 {
            (sg, 1 + r.below(23) as i64, om)
        } else {
            (sg, oh, om)
        }
    };
    let off = (if sg == 'm' { -1 } else { 1 }) * (oh * 60 + om);
    match kind {
        0 => {
            let f = F { y, mo, d, h: 23, mi: 59, s: 60 };
            match r.below(5) {
                0 => parse_line(out, op, &render("Z", f, nd, frac, 'p', 0, 0, "UTC"), "Z", f, nd, frac, 'p', 0, 0, "UTC"),
                1 => parse_line(out, op, &render("ZT", f, nd, frac, 'p', 0, 0, "UTC"), "ZT", f, nd, frac, 'p', 0, 0, "UTC"),
                2 => parse_line(out, op, &render("D", f, nd, frac, 'p', 0, 0, "UTC"), "D", f, nd, frac, 'p', 0, 0, "UTC"),
                3 => parse_line(out, op, &render("O", f, nd, frac, 'p', 0, 0, "UTC"), "O", f, nd, frac, 'p', 0, 0, "UTC"),
                _ => parse_line(out, op, &render("OT", f, nd, frac, 'm', 0, 0, "UTC"), "OT", f, nd, frac, 'm', 0, 0, "UTC"),
            }
        }
        1 => {
            let (ly, lmo, ld, lm) = shift_minutes(y, mo, d, 1439, off);
            let f = F { y: ly, mo: lmo, d: ld, h: lm / 60, mi: lm % 60, s: 60 };
            let form = if r.chance(1, 3) { "OT" } else { "O" };
            parse_line(out, op, &render(form, f, nd, frac, sg, oh, om, "UTC"), form, f, nd, frac, sg, oh, om, "UTC")
        }
        2 => {
            let f = F { y, mo, d, h: 23, mi: 59, s: 60 };
            let form = if r.chance(1, 3) { "OT" } else { "O" };
            parse_line(out, op, &render(form, f, nd, frac, sg, oh, om, "UTC"), form, f, nd, frac, sg, oh, om, "UTC")
        }
        3 => {
            let ts = *r.pick(&["TAI", "TT", "ET", "TDB", "GPST", "GST", "BDT", "QZSST"]);
            if r.chance(1, 4) {
                // the label of that scale's own clock shown with a non-zero offset
                let (ly, lmo, ld, lm) = shift_minutes(y, mo, d, 1439, off);
                let f = F { y: ly, mo: lmo, d: ld, h: lm / 60, mi: lm % 60, s: 60 };
                return parse_line(out, op, &render("OT", f, nd, frac, sg, oh, om, ts), "OT", f, nd, frac, sg, oh, om, ts);
            }
            let f = if r.chance(3, 4) { F { y, mo, d, h: 23, mi: 59, s: 60 } } else { F { s: 60, ..pick_fields(r) } };
            match r.below(3) {
                0 => parse_line(out, op, &render("D", f, nd, frac, 'p', 0, 0, ts), "D", f, nd, frac, 'p', 0, 0, ts),
                1 => parse_line(out, op, &render("ZT", f, nd, frac, 'p', 0, 0, ts), "ZT", f, nd, frac, 'p', 0, 0, ts),
                _ => parse_line(out, op, &render("OT", f, nd, frac, sg, oh, om, ts), "OT", f, nd, frac, sg, oh, om, ts),
            }
        }
        _ => {
            // UTC, not a leap second: another day (same date in a neighbouring year, 30 June / 31 December of
            // any year, any day) or the right day at another minute
            let f = match r.below(4) {
                0 => F { y: y + *r.pick(&[-1i64, 1, 2]), mo, d, h: 23, mi: 59, s: 60 },
                1 => F { y, mo, d, h: *r.pick(&[0i64, 12, 22, 23]), mi: *r.pick(&[0i64, 58, 59]), s: 60 },
                2 => F { y: pick_year(r), mo: *r.pick(&[6i64, 12]), d: 30, h: 23, mi: 59, s: 60 },
                _ => F { s: 60, ..pick_fields(r) },
            };
            let f = if f.h == 23 && f.mi == 59 && LEAP_DAYS.contains(&(f.y, f.mo, f.d)) { F { mi: 58, ..f } } else { f };
            let form = *r.pick(&["Z", "D", "O"]);
            let (sg2, oh2, om2) = if form == "O" { ('p', 0, 0) } else { ('p', 0, 0) };
            parse_line(out, op, &render(form, f, nd, frac, sg2, oh2, om2, "UTC"), form, f, nd, frac, sg2, oh2, om2, "UTC")
        }
    }
}

pub fn inputs_c10(r: &mut Rng, n: usize, _tier: &str, out: &mut dyn Write) {
    // boundary block: every scale x named years x first/last day x first/last ns: all renderings read back
    for (k, ts) in SCALE_NAMES.iter().enumerate() {
        for (j, &y) in YEARS.iter().enumerate() {
            for (mo, d) in [(1i64, 1i64), (2, 28), (12, 31)] {
                for (tod, ns) in [(0i64, 0i128), (86399, 999_999_999), (43200, 1)] {
                    let f = F { y, mo, d, h: tod / 3600, mi: (tod / 60) % 60, s: tod % 60 };
                    let e = estr(total_of(f, ns, ts), ts);
                    let kind = ["display", "gregstr", "isofmt", "json"][(k + j + (mo as usize) + (tod as usize)) % 4];
                    writeln!(out, "ert {} {}", kind, e).unwrap();
                    if *ts == "UTC" {
                        writeln!(out, "ert rfc3339 {}", e).unwrap();
                    }
                }
            }
        }
    }
    // every offset hour and minute once, both signs; every fraction length
    for oh in 0..24i64 {
        for (i, sg) in ['p', 'm'].iter().enumerate() {
            let f = F { y: 2000 + oh, mo: 1 + (oh % 12), d: 1 + oh, h: (oh * 7) % 24, mi: 30, s: 15 };
            let om = (oh * 13 + i as i64 * 29) % 60;
            let nd = (oh as usize + i) % 10;
            let frac = if nd == 0 { 0 } else { 10u64.pow(nd as u32) - 1 - oh as u64 % 7 };
            let ts = SCALE_NAMES[(oh as usize + i) % 9];
            for form in ["O", "OT"] {
                let tsn = if form == "O" { "UTC" } else { ts };
                let text = render(form, f, nd, frac, *sg, oh, om, tsn);
                parse_line(out, if oh % 2 == 0 { "gregparse" } else { "eparse" }, &text, form, f, nd, frac, *sg, oh, om, tsn);
            }
        }
    }
    for om in 0..60i64 {
        let f = F { y: 1999, mo: 12, d: 31, h: 23, mi: 59, s: 59 };
        let sg = if om % 2 == 0 { 'p' } else { 'm' };
        let text = render("O", f, 0, 0, sg, om % 10, om, "UTC");
        parse_line(out, "eparse", &text, "O", f, 0, 0, sg, om % 10, om, "UTC");
    }
    // every (prefix, suffix spelling) pair of the numeric forms on every run
    for prefix in NUM_PREFIXES.iter() {
        for sfx in NUM_SUFFIXES.iter() {
            numeric_line_for(r, out, prefix, sfx);
            numeric_line_for(r, out, prefix, sfx);
        }
    }
    // second = 60: every kind a few times on every run
    for k in 0..60u64 {
        second60_line(r, out, k % 5);
    }
    for _ in 0..n {
        let ts = SCALE_NAMES[r.below(9) as usize];
        match r.below(42) {
            0..=5 => {
                let kind = *r.pick(&["display", "gregstr", "isofmt", "json"]);
                writeln!(out, "ert {} {}", kind, estr(epoch_c10(r, ts), ts)).unwrap()
            }
            6 => writeln!(out, "ert rfc3339 {}", estr(epoch_c10(r, "UTC"), "UTC")).unwrap(),
            7 if r.chance(1, 2) => writeln!(out, "ert rfc3339 {}", estr(epoch_c10(r, "UTC"), "UTC")).unwrap(),
            7 => {
                // rendered with an offset, every whole minute of -23:59..+23:59 (half of them under one hour, either sign:
                // seeded change C10-8 lost the sign of -00:mm), then parsed back
                let m: i64 = match r.below(4) { 0 => r.range_i64(-59, 59), 1 => *r.pick(&[-1i64, 1, -59, 59, -60, 60, -1439, 1439, 0]), _ => r.range_i64(-1439, 1439) };
                writeln!(out, "tz_rt {} {} {}", r.pick(&["std", "flex"]), estr(epoch_c10(r, "UTC"), "UTC"), dstr(m as i128 * 60_000_000_000)).unwrap()
            }
            8 => writeln!(out, "edisplay {}", estr(epoch_c10(r, ts), ts)).unwrap(),
            9 => writeln!(out, "rfc3339 {}", estr(epoch_c10(r, "UTC"), "UTC")).unwrap(),
            10 => writeln!(out, "gregstr {} {}", estr(epoch_c10(r, ts), ts), ts).unwrap(),
            11 => writeln!(out, "isofmt {}", estr(epoch_c10(r, ts), ts)).unwrap(),
            12 => writeln!(out, "ejson {}", estr(epoch_c10(r, ts), ts)).unwrap(),
            13..=16 => {
                // Display / to_gregorian_str grammar rendered by the generator: 0 or 9 fractional digits
                let f = pick_fields(r);
                let (nd, frac) = if r.chance(1, 2) { (0, 0) } else { (9, pick_frac9(r)) };
                let text = render("D", f, nd, frac, 'p', 0, 0, ts);
                let op = *r.pick(&["eparse", "gregparse", "ejsonparse"]);
                let text = if op == "ejsonparse" { format!("\"{}\"", text) } else { text };
                parse_line(out, op, &text, "D", f, nd, frac, 'p', 0, 0, ts)
            }
            17..=21 => {
                // 'Z' forms
                let f = pick_fields(r);
                let (nd, frac) = pick_frac(r);
                let form = if r.chance(1, 3) { "ZT" } else { "Z" };
                let tsn = if form == "Z" { "UTC" } else { ts };
                let text = render(form, f, nd, frac, 'p', 0, 0, tsn);
                let op = *r.pick(&["eparse", "gregparse"]);
                parse_line(out, op, &text, form, f, nd, frac, 'p', 0, 0, tsn)
            }
            22..=33 => {
                // offset forms
                let mut f = pick_fields(r);
                let (nd, frac) = pick_frac(r);
                let (mut sg, mut oh, mut om) = pick_offset(r);
                if r.chance(1, 24) {
                    // the written (local) date lies in year 0000 although the instant is in year 0001: RFC 3339 allows
                    // year 0000, and a negative offset moves 0000-12-31T23:30-01:00 to 0001-01-01T00:30Z
                    sg = 'm';
                    if oh == 0 && om == 0 {
                        oh = 1 + r.below(23) as i64;
                        om = *r.pick(&[0i64, 30, 59]);
                    }
                    let off_min = oh * 60 + om;
                    let local_min = 1440 - 1 - r.below(off_min as u64) as i64; // local time + offset reaches the next day
                    f = F { y: 0, mo: 12, d: 31, h: local_min / 60, mi: local_min % 60, s: f.s.min(59) };
                }
                let form = if r.chance(1, 3) { "OT" } else { "O" };
                let tsn = if form == "O" { "UTC" } else { ts };
                let text = render(form, f, nd, frac, sg, oh, om, tsn);
                let op = *r.pick(&["eparse", "gregparse"]);
                parse_line(out, op, &text, form, f, nd, frac, sg, oh, om, tsn)
            }
            34..=39 => numeric_line(r, out),
            _ => {
                let k = r.below(5);
                second60_line(r, out, k)
            }
        }
    }
}

fn pick_frac9(r: &mut Rng) -> u64 {
    match r.below(6) {
        0 => 1,
        1 => 999_999_999,
        2 => 100_000_000,
        3 => 1_000_000 * r.below(1000),
        _ => r.below(1_000_000_000),
    }
}

// ------------------------------------------------------------------------------------------ C13E

const WS: [&str; 14] = [" ", "\t", "\n", "\r", "\u{b}", "\u{c}", "\u{85}", "\u{a0}", "\u{1680}", "\u{2003}", "\u{2028}", "\u{202f}", "\u{3000}", "\u{feff}"];
/// multi-byte, digit-like (`char::is_numeric`) and other awkward characters
const ODD: [&str; 26] = [
    "é", "ß", "中", "😀", "\u{663}", "\u{6f3}", "\u{ff13}", "\u{b2}", "\u{bd}", "\u{bf0}", "\u{1d7d7}", "\u{2167}", "\u{3007}", "\u{200b}", "\u{0}", "\u{7f}",
    "\u{80}", "\u{7ff}", "\u{800}", "\u{ffff}", "\u{10000}", "\u{10ffff}", "\u{301}", "\u{2212}", "\u{ff0d}", "\u{ff1a}",
];
const ASCII_POOL: &str = "0123456789-:T .Z+eEnaifJDMSCUGPBQLxX_/,\"\\";

fn enum_spellings() -> Vec<&'static str> {
    vec![
        "UTC", "TT", "TAI", "TDB", "ET", "GPST", "GPS", "GST", "GAL", "BDT", "BDS", "QZSST", "QZSS", "utc", "Utc", "TAi", "GPSt", "mon", "Mon", "MON",
        "monday", "Monday", "MONDAY", "tue", "Tuesday", "WED", "thursday", "Fri", "SATURDAY", "sun", "Sunday", "jan", "January", "FEBRUARY", "mar", "Apr",
        "may", "May", "MAY", "june", "JUL", "August", "sep", "Sept", "OCTOBER", "nov", "december", "Dec", "MoN", "mAY", "Mayy", "", "M",
    ]
}

fn long_digits(r: &mut Rng) -> String {
    let n = *r.pick(&[10usize, 11, 19, 20, 39, 40, 100, 400]);
    let lead = *r.pick(&["", "0", "000000000000", "9", "2147483647", "2147483648", "4294967296", "9223372036854775808"]);
    let mut s = String::from(lead);
    while s.len() < n {
        s.push((b'0' + r.below(10) as u8) as char);
    }
    s
}

fn odd_number(r: &mut Rng) -> String {
    match r.below(28) {
        0 => "nan".into(),
        1 => "NaN".into(),
        2 => "inf".into(),
        3 => "-inf".into(),
        4 => "Infinity".into(),
        5 => "+infinity".into(),
        6 => "1e400".into(),
        7 => "-1e400".into(),
        8 => "1e-400".into(),
        9 => "1e99999999999999999999".into(),
        10 => "1e-99999999999999999999".into(),
        11 => "0e99999999999".into(),
        12 => "1.7976931348623157e308".into(),
        13 => "1.7976931348623159e308".into(),
        14 => "4.9e-324".into(),
        15 => "2.4703282292062327e-324".into(),
        16 => long_digits(r),
        17 => format!("{}.{}", long_digits(r), long_digits(r)),
        18 => format!("0.{}1", "0".repeat(*r.pick(&[10usize, 300, 400]))),
        19 => "1.".into(),
        20 => ".5".into(),
        21 => ".".into(),
        22 => "1e".into(),
        23 => "1e+".into(),
        24 => "--1".into(),
        25 => "+-1".into(),
        26 => format!("{}{}", "0".repeat(*r.pick(&[300usize, 400, 1000])), *r.pick(&["1", "1e-3", ".5", "9e400", "123456789e-400"])),
        _ => format!("{}e{}", r.range_i64(-99999, 99999), r.range_i64(-330, 330)),
    }
}

/// a grammar-derived (mostly valid) epoch text
fn base_epoch_text(r: &mut Rng) -> String {
    let ts = SCALE_NAMES[r.below(9) as usize];
    let f = pick_fields(r);
    let (nd, frac) = pick_frac(r);
    let (sg, oh, om) = pick_offset(r);
    match r.below(16) {
        0..=8 => {
            let form = *r.pick(&["D", "D", "Z", "ZT", "O", "OT", "S", "N"]);
            let tsn = *r.pick(&[ts, ts, ts, "GPS", "GAL", "BDS", "QZSS"]);
            render(form, f, nd, frac, sg, oh, om, tsn)
        }
        9..=11 => {
            let prefix = *r.pick(&NUM_PREFIXES);
            let sfx = *r.pick(&NUM_SUFFIXES);
            let v = r.range_i64(-3_000_000_000, 3_000_000_000) as i128;
            format!("{} {} {}", prefix, decimal(v, r.below(10) as u32), sfx)
        }
        12 => {
            // any prefix with any suffix spelling (unsupported pairs must be errors)
            let prefix = *r.pick(&["JD", "MJD", "SEC"]);
            let sfx = *r.pick(&["TAI", "TT", "ET", "TDB", "UTC", "GPST", "GPS", "GST", "GAL", "BDT", "BDS", "QZSST", "QZSS", "XYZ"]);
            format!("{} {} {}", prefix, decimal(r.range_i64(-100000, 3_000_000) as i128, r.below(4) as u32), sfx)
        }
        13 => {
            let prefix = *r.pick(&["JD", "MJD", "SEC"]);
            let sfx = *r.pick(&["TAI", "TT", "ET", "TDB", "UTC", "GPS", "GST", "BDT"]);
            format!("{} {} {}", prefix, odd_number(r), sfx)
        }
        14 => {
            // out-of-range fields in well-formed text
            let mut g = f;
            match r.below(8) {
                0 => g.mo = *r.pick(&[0i64, 13, 14, 99]),
                1 => g.d = *r.pick(&[0i64, 32, 99]),
                2 => g.d = month_len(g.y, g.mo) + 1,
                3 => g.h = *r.pick(&[24i64, 25, 99]),
                4 => g.mi = *r.pick(&[60i64, 61, 99]),
                5 => g.s = *r.pick(&[60i64, 61, 99]),
                6 => {
                    g.mo = 2;
                    g.d = *r.pick(&[29i64, 30, 31])
                }
                _ => g.y = *r.pick(&[0i64, 10000, 2147483647, 2147483648, 99999999999]),
            }
            let form = *r.pick(&["D", "Z", "O"]);
            render(form, g, nd, frac, sg, oh, om, ts)
        }
        _ => {
            // the largest years, at the moment `january_years(year + 1)` is evaluated
            let y = *r.pick(&[2147483647i64, 2147483646, 2147481000, 999999999]);
            let g = F { y, mo: *r.pick(&[12i64, 6]), d: *r.pick(&[31i64, 30]), h: 23, mi: 59, s: *r.pick(&[0i64, 59, 60]) };
            render(*r.pick(&["D", "Z", "N"]), g, 0, 0, 'p', 0, 0, ts)
        }
    }
}

fn rand_piece(r: &mut Rng) -> String {
    match r.below(10) {
        0 | 1 => (*r.pick(&ODD)).to_string(),
        2 => (*r.pick(&WS)).to_string(),
        3 => long_digits(r),
        4 => odd_number(r),
        5 => (*r.pick(&["UTC", "TAI", "GPS", " TT", " ET", "GPST", "QZSST", "JD", "MJD", "SEC", "Z", "+00:00", "-", "+", ".", ":"])).to_string(),
        _ => {
            let b = ASCII_POOL.as_bytes();
            (b[r.below(b.len() as u64) as usize] as char).to_string()
        }
    }
}

/// delete / insert / substitute / truncate / duplicate at character level
fn mutate(r: &mut Rng, s: &str) -> String {
    let cs: Vec<char> = s.chars().collect();
    let n = cs.len();
    let pos = |r: &mut Rng, n: usize| -> usize {
        if n == 0 {
            0
        } else {
            match r.below(6) {
                0 => 0,
                1 => n - 1,
                2 => n.saturating_sub(3),
                3 => n.saturating_sub(4),
                _ => r.below(n as u64) as usize,
            }
        }
    };
    let collect = |v: &[char]| v.iter().collect::<String>();
    match r.below(9) {
        0 if n > 0 => {
            let i = pos(r, n);
            collect(&cs[..i]) + &collect(&cs[i + 1..])
        }
        1 | 2 => {
            let i = if n == 0 { 0 } else { pos(r, n + 1).min(n) };
            collect(&cs[..i]) + &rand_piece(r) + &collect(&cs[i..])
        }
        3 | 4 if n > 0 => {
            let i = pos(r, n);
            collect(&cs[..i]) + &rand_piece(r) + &collect(&cs[i + 1..])
        }
        5 if n > 0 => collect(&cs[..pos(r, n)]),
        6 if n > 0 => collect(&cs[pos(r, n)..]),
        7 if n > 1 => {
            let i = pos(r, n);
            let j = (i + 1 + r.below(4) as usize).min(n);
            collect(&cs[..j]) + &collect(&cs[i..])
        }
        _ => {
            // whitespace padding
            let a = if r.chance(1, 2) { *r.pick(&WS) } else { "" };
            let b = if r.chance(1, 2) { *r.pick(&WS) } else { "" };
            format!("{}{}{}", a, s, b)
        }
    }
}

fn mutated(r: &mut Rng, base: String) -> String {
    let k = match r.below(8) {
        0 => 0,
        1..=4 => 1,
        5 | 6 => 2,
        _ => 3,
    };
    let mut s = base;
    for _ in 0..k {
        s = mutate(r, &s);
    }
    // protocol lines cannot carry an unbounded string comfortably
    if s.len() > 4000 {
        let mut cut = 4000;
        while !s.is_char_boundary(cut) {
            cut -= 1;
        }
        s.truncate(cut);
    }
    s
}

pub fn inputs_c13e(r: &mut Rng, n: usize, _tier: &str, out: &mut dyn Write) {
    // fixed block: the documented past failures and the structural edge strings
    let fixed: [&str; 72] = [
        "", " ", "x", "JD", "MJD", "SEC", "JD TAI", "JD 1 TAI", "SEC 0 TT", "SEC 0 ET", "SEC0 ET", "xé12345", "JD 24 éé", "SEC NaN TAI", "JD inf TAI",
        "MJD 1e400 TAI", "2017-01-14T00:31:55.1234567891 UTC", "2017-01-14T00:31:55.123456789 UTC", "2017-01-14T00:31:55.0000000000", "JD 1éGPS", "MJD 5é GPS",
        "SEC 1😀GPS", "SECéGPS", "SEC GPS", "SECxGPS", "JDxxGPS", "JD  GPS", "JD 1 GPST", "MJD 51544.5 GPS", "MJD 51544.5GPS", "JD 2451545.0  TT",
        "2147483647-12-31T23:59:00", "2147483647-12-31T23:59:00 TAI", "2147483647-06-30T23:59:60 UTC", "2147483647-12-30T23:59:00", "2147483648-01-01T00:00:00",
        "2147483647-01-01T00:00:00", "-2017-01-14T00:31:55", "+2017-01-14T00:31:55", "2017-01-14T00:31:55+10:00", "2017-01-14T00:31:55-23:59", "2017-01-14T00:31:55+5:00",
        "2017-01-14T00:31:55+:00", "2017-01-14T00:31:55+", "2017-01-14T00:31:55-", "2017-01-14T00:31:55+0", "2017-01-14T00:31:55+05", "2017-01-14T00:31:55+05:",
        "2017-01-14T00:31:55.", "2017-01-14T00:31:55.Z", "2017-01-14T00:31:55 U", "2017-01-14T00:31:55 123X", "2017-01-14T00:31:55Z9", "2017-01-14T00:31:5",
        "2017-01-14T00:31:", "2017-01-14T", "2017-01-14", "2017-", "2017", "２０１７-01-14T00:31:55", "2017-01-14T00:31:55 ＵＴＣ", "٢٠١٧-٠١-١٤T٠٠:٣١:٥٥", "2017-01-14T00:31:55\u{a0}UTC",
        "\u{3000}2017-01-14T00:31:55 UTC\u{2003}",
        "2016-12-31T23:59:60Z", "2017-01-01T09:59:60+10:00", "2016-12-31T23:59:60+10:00", "2016-12-31T23:59:60 TAI", "5000000-12-31T23:59:60Z",
        "2147483647-12-31T23:59:60-23:59", "0000-01-01T00:00:60+23:59", "5879000-06-30T23:59:60 GPST",
    ];
    for s in fixed.iter() {
        writeln!(out, "p_epoch {}", str2hex(s)).unwrap();
        writeln!(out, "p_greg {}", str2hex(s)).unwrap();
    }
    for s in enum_spellings() {
        for op in ["p_ts", "p_wd", "p_month"] {
            writeln!(out, "{} {}", op, str2hex(s)).unwrap();
            writeln!(out, "{} {}", op, str2hex(&format!(" {}\t", s))).unwrap();
        }
    }
    // contract of lexical_core::parse (sign, leading zeros, empty, trailing garbage, range)
    for s in [
        "", "0", "00", "007", "7", "-7", "+7", "-0", "+", "-", "--7", "+-7", "7 ", " 7", "7x", "x7", "2147483647", "2147483648", "-2147483648", "-2147483649",
        "02147483647", "0000000000000000000000000000002147483647", "9223372036854775807", "9223372036854775808", "-9223372036854775808", "-9223372036854775809", "1e3", "1.0", "٣", "３",
        "99999999999999999999999999",
    ] {
        writeln!(out, "elex_i32 {}", str2hex(s)).unwrap();
        writeln!(out, "elex_i64 {}", str2hex(s)).unwrap();
        writeln!(out, "elex_f64 {}", str2hex(s)).unwrap();
    }
    for s in [
        "1.5", "-1.5", "+1.5", "1.", ".5", ".", "-.5", "1e5", "1E5", "1e+5", "1e-5", "1e", "1e+", "e5", "1.5e", "1.5.5", "1,5", "0x10", "1_0", "nan", "NaN", "NAN", "-nan", "+nan", "inf", "Inf", "INF", "-inf",
        "+inf", "infinity", "Infinity", "INFINITY", "-Infinity", "infinit", "infinityx", "in", "na", "1e400", "-1e400", "1e-400", "-1e-400", "0e400", "1e99999999999999999999",
        "1e-99999999999999999999", "1.7976931348623157e308", "1.7976931348623158e308", "1.7976931348623159e308", "1.797693134862315807e308", "1.797693134862315808e308",
        "4.9e-324", "2.4703282292062327e-324", "2.4703282292062328e-324", "2.470328229206232720882843964341106861825299013071623822127928412503377536351043e-324",
        "2.2250738585072014e-308", "2.2250738585072011e-308", "9007199254740993", "9007199254740992.5", "9007199254740993.0000000000000000000000001", "0.1", "0.3",
        "0000000000000000000000000000000000000000000000000000000000000000000000000000000000000000000000000000000000000000000000000000000000000000000000000000000000000000000000000000000000000000000000000000000000000000000000000000000000000000000000000000000000000000000000000000000000000000000000000000000000000000000000000000000000000000000000001", "1_000",
        "2451545.0", "51544.5", "66312032.18493909", "2452312.500372511", "123456789012345678901234567890", "0.000000000000000000000000000001", "1 ", " 1", "1 2", "١",
    ] {
        writeln!(out, "elex_f64 {}", str2hex(s)).unwrap();
    }
    for _ in 0..n {
        match r.below(20) {
            0..=9 => {
                let b = base_epoch_text(r);
                let s = mutated(r, b);
                writeln!(out, "p_epoch {}", str2hex(&s)).unwrap()
            }
            10..=14 => {
                let b = base_epoch_text(r);
                let s = mutated(r, b);
                writeln!(out, "p_greg {}", str2hex(&s)).unwrap()
            }
            15 | 16 => {
                let sp = enum_spellings();
                let b = r.pick(&sp).to_string();
                let s = mutated(r, b);
                let op = *r.pick(&["p_ts", "p_wd", "p_month"]);
                writeln!(out, "{} {}", op, str2hex(&s)).unwrap()
            }
            17 => {
                // numeric prefix + junk + every suffix alignment, short strings around the 7-byte guard
                let prefix = *r.pick(&["JD", "MJD", "SEC", "J", "MJ", "SE", "JDD", "jd"]);
                let mid: String = (0..r.below(4)).map(|_| rand_piece(r)).collect();
                let sfx = *r.pick(&["TAI", "UTC", " TT", " ET", "TT", "ET", "TDB", "GPS", "GST", "GAL", "BDT", "BDS", "PST", "ZSS", "SST", "é", ""]);
                let s = format!("{}{}{}", prefix, mid, sfx);
                writeln!(out, "p_epoch {}", str2hex(&s)).unwrap()
            }
            18 => {
                let s = odd_number(r);
                let s = if r.chance(1, 3) { mutated(r, s) } else { s };
                let op = *r.pick(&["elex_f64", "elex_f64", "elex_i32", "elex_i64"]);
                writeln!(out, "{} {}", op, str2hex(&s)).unwrap()
            }
            _ => {
                // pure junk
                let s: String = (0..r.below(12)).map(|_| rand_piece(r)).collect();
                let op = *r.pick(&["p_epoch", "p_greg", "p_ts", "p_wd", "p_month"]);
                writeln!(out, "{} {}", op, str2hex(&s)).unwrap()
            }
        }
    }
}

// ------------------------------------------------------------------------------------------ exec

fn res_e(r: Result<Epoch, hifitime::HifitimeError>) -> String {
    match r {
        Ok(e) => format!("ok {}", e2s(e)),
        Err(_) => "err".to_string(),
    }
}

fn okhex(s: &str) -> Option<String> {
    Some(format!("ok {}", str2hex(s)))
}

pub fn exec(op: &str, a: &[&str]) -> Option<String> {
    match op {
        "edisplay" => okhex(&format!("{}", s2e(a[0]))),
        "rfc3339" => okhex(&s2e(a[0]).to_rfc3339()),
        "gregstr" => okhex(&s2e(a[0]).to_gregorian_str(s2ts(a[1]))),
        "isofmt" => okhex(&format!("{}", Formatter::new(s2e(a[0]), ISO8601))),
        "ejson" => okhex(&serde_json::to_string(&s2e(a[0])).unwrap()),
        // the RFC 3339 rendering of a UTC epoch WITH an offset (Formatter::with_timezone, RFC3339 / RFC3339_FLEX), parsed back
        "tz_rt" => {
            let e = s2e(a[1]);
            let off = s2d(a[2]);
            let f = if a[0] == "flex" { hifitime::efmt::consts::RFC3339_FLEX } else { hifitime::efmt::consts::RFC3339 };
            let s = format!("{}", Formatter::with_timezone(e, off, f));
            Some(match Epoch::from_str(&s) {
                Ok(x) => format!("ok {} {}", str2hex(&s), e2s(x)),
                Err(_) => format!("ok {} err", str2hex(&s)),
            })
        }
        "ert" => {
            let e = s2e(a[1]);
            let s = match a[0] {
                "display" => format!("{}", e),
                "gregstr" => e.to_gregorian_str(e.time_scale),
                "isofmt" => format!("{}", Formatter::new(e, ISO8601)),
                "rfc3339" => e.to_rfc3339(),
                "json" => {
                    let j = serde_json::to_string(&e).unwrap();
                    return Some(match super::json_all::<Epoch>(&j) {
                        // ... and so must a data format that is not human readable (crate::binfmt)
                        Ok(Some(x)) if crate::binfmt::round_trip(&e).ok() != Some(x) => "entry-points-differ".to_string(),
                        Ok(Some(x)) => format!("ok {}", e2s(x)),
                        Ok(None) => "err".to_string(),
                        Err(()) => "entry-points-differ".to_string(),
                    });
                }
                _ => return None,
            };
            Some(res_e(Epoch::from_str(&s)))
        }
        "eparse" | "nparse" | "p_epoch" => Some(res_e(Epoch::from_str(&hex2str(a[0])))),
        "gregparse" | "p_greg" => Some(res_e(Epoch::from_gregorian_str(&hex2str(a[0])))),
        "ejsonparse" => Some(match super::json_all::<Epoch>(&hex2str(a[0])) {
            Ok(Some(x)) => format!("ok {}", e2s(x)),
            Ok(None) => "err".to_string(),
            Err(()) => "entry-points-differ".to_string(),
        }),
        "p_ts" => Some(match TimeScale::from_str(&hex2str(a[0])) {
            Ok(t) => format!("ok {}", ts2s(t)),
            Err(_) => "err".to_string(),
        }),
        "p_wd" => Some(match Weekday::from_str(&hex2str(a[0])) {
            Ok(w) => format!("ok {}", wd2i(w)),
            Err(_) => "err".to_string(),
        }),
        "p_month" => Some(match MonthName::from_str(&hex2str(a[0])) {
            Ok(m) => format!("ok {}", m as u8 + 1),
            Err(_) => "err".to_string(),
        }),
        "elex_i32" => Some(match lexical_core::parse::<i32>(hex2str(a[0]).as_bytes()) {
            Ok(v) => format!("ok {}", v),
            Err(_) => "err".to_string(),
        }),
        "elex_i64" => Some(match lexical_core::parse::<i64>(hex2str(a[0]).as_bytes()) {
            Ok(v) => format!("ok {}", v),
            Err(_) => "err".to_string(),
        }),
        "elex_f64" => Some(match lexical_core::parse::<f64>(hex2str(a[0]).as_bytes()) {
            Ok(v) => format!("ok {}", f2s(v)),
            Err(_) => "err".to_string(),
        }),
        _ => None,
    }
}

fn ranges_of(pred: fn(char) -> bool) -> Vec<[u32; 2]> {
    let mut v: Vec<[u32; 2]> = Vec::new();
    let mut start: Option<u32> = None;
    for c in 0u32..=0x110000 {
        let yes = char::from_u32(c).map(pred).unwrap_or(false);
        match (yes, start) {
            (true, None) => start = Some(c),
            (false, Some(s)) => {
                v.push([s, c - 1]);
                start = None;
            }
            _ => {}
        }
    }
    v
}

/// `char::is_whitespace` / `char::is_numeric` of the std actually linked, as inclusive ranges of code
/// points; the spellings accepted by the three enum parsers are probed through `from_str`.
pub fn dump_consts(m: &mut serde_json::Map<String, serde_json::Value>) {
    m.insert("UNICODE_WHITESPACE".into(), serde_json::json!(ranges_of(char::is_whitespace)));
    m.insert("UNICODE_NUMERIC".into(), serde_json::json!(ranges_of(char::is_numeric)));
    let ts_disp: Vec<String> = SCALES.iter().map(|t| format!("{}", t)).collect();
    m.insert("TIMESCALE_DISPLAY".into(), serde_json::json!(ts_disp));
    let wd: Vec<String> = (0u8..7).map(|u| format!("{:?}", Weekday::from(u))).collect();
    m.insert("WEEKDAY_NAME_OF_U8".into(), serde_json::json!(wd));
}
