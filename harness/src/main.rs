//! `hv` — the Rust side of the correspondence check.
//!
//! hv inputs <prop> <seed> <n> <tier>   print generated input lines (`op arg…`) for a property
//! hv exec                              read input lines on stdin, run each against the real
//!                                      hifitime (in-process), print `op arg… => result`
//! hv dump-consts                       print the constants/tables of the linked hifitime as JSON
//!
//! Encodings: duration `c:ns`, epoch `c:ns:TS`, integers decimal, f64 as 16 hex digits of the bit
//! pattern, strings as hex of the UTF-8 bytes (`-` for the empty string).
//! Results: `ok <value…>` | `err` | `panic` | `hang`.

mod binfmt;
mod codec;
mod consts;
mod gen;
mod ops;
mod props;
mod rng;

use std::io::{BufRead, Write};
use std::sync::mpsc;
use std::time::Duration as StdDuration;

thread_local! {
    /// source file of the last panic on this thread (set by the panic hook): tells a panic of the harness's own
    /// argument decoding / assertions (`…/harness/src/…`) from a panic raised in the library or in core on its behalf
    static LAST_PANIC_FILE: std::cell::RefCell<String> = std::cell::RefCell::new(String::new());
}

fn run_one(line: &str) -> String {
    let toks: Vec<&str> = line.split_whitespace().collect();
    if toks.is_empty() {
        return "bad-op".to_string();
    }
    let op = toks[0].to_string();
    let args: Vec<String> = toks[1..].iter().map(|s| s.to_string()).collect();
    let r = std::panic::catch_unwind(move || {
        let a: Vec<&str> = args.iter().map(|s| s.as_str()).collect();
        ops::exec(&op, &a)
    });
    match r {
        Ok(Some(s)) => s,
        Ok(None) => "bad-op".to_string(),
        Err(_) => {
            let file = LAST_PANIC_FILE.with(|f| f.borrow().clone());
            if file.contains("/harness/src/") || file.starts_with("src/") {
                // the harness itself panicked (malformed argument, failed self-check): not an observation of the library
                "bad-arg".to_string()
            } else {
                "panic".to_string()
            }
        }
    }
}

/// Runs every case on a worker thread so that a non-terminating call is reported as `hang`
/// (the stuck worker is abandoned and a new one is started).
fn exec_stream() {
    std::panic::set_hook(Box::new(|info| {
        let file = info.location().map(|l| l.file().to_string()).unwrap_or_default();
        LAST_PANIC_FILE.with(|f| *f.borrow_mut() = file);
    }));
    let hang_ms: u64 = std::env::var("HV_HANG_MS")
        .ok()
        .and_then(|s| s.parse().ok())
        .unwrap_or(4000);
    let stdin = std::io::stdin();
    let stdout = std::io::stdout();
    let mut out = std::io::BufWriter::new(stdout.lock());

    let spawn_worker = || {
        let (tx_job, rx_job) = mpsc::channel::<String>();
        let (tx_res, rx_res) = mpsc::channel::<String>();
        std::thread::Builder::new()
            .stack_size(64 << 20)
            .spawn(move || {
                while let Ok(job) = rx_job.recv() {
                    let r = run_one(&job);
                    if tx_res.send(r).is_err() {
                        break;
                    }
                }
            })
            .unwrap();
        (tx_job, rx_res)
    };
    let (mut tx_job, mut rx_res) = spawn_worker();
    let mut hangs = 0usize;
    for line in stdin.lock().lines() {
        let line = match line {
            Ok(l) => l,
            Err(_) => break,
        };
        let line = line.trim();
        if line.is_empty() || line.starts_with('#') {
            continue;
        }
        // strip a previous result if present (replay of a stored case)
        let input = match line.find(" => ") {
            Some(i) => &line[..i],
            None => line,
        };
        tx_job.send(input.to_string()).unwrap();
        let res = match rx_res.recv_timeout(StdDuration::from_millis(hang_ms)) {
            Ok(r) => r,
            Err(_) => {
                hangs += 1;
                if hangs > 64 {
                    // too many abandoned spinning threads; give up loudly
                    writeln!(out, "{} => hang", input).unwrap();
                    out.flush().unwrap();
                    std::process::exit(3);
                }
                let (t, r) = spawn_worker();
                tx_job = t;
                rx_res = r;
                "hang".to_string()
            }
        };
        writeln!(out, "{} => {}", input, res).unwrap();
    }
    out.flush().unwrap();
    // abandoned workers may still spin: leave without joining
    std::process::exit(0);
}

fn main() {
    let args: Vec<String> = std::env::args().collect();
    if args.len() < 2 {
        eprintln!("usage: hv inputs <prop> <seed> <n> <tier> | exec | dump-consts");
        std::process::exit(2);
    }
    match args[1].as_str() {
        "inputs" => {
            let prop = &args[2];
            let seed: u64 = args[3].parse().unwrap();
            let n: usize = args[4].parse().unwrap();
            let tier = args.get(5).map(|s| s.as_str()).unwrap_or("quick");
            let stdout = std::io::stdout();
            let mut out = std::io::BufWriter::new(stdout.lock());
            gen::inputs(prop, seed, n, tier, &mut out);
            out.flush().unwrap();
        }
        "exec" => exec_stream(),
        "dump-consts" => consts::dump(),
        _ => {
            eprintln!("unknown command");
            std::process::exit(2);
        }
    }
}
