#!/usr/bin/env python3
"""Writes MANIFEST.json from tools/propcfg.py (one entry per claimed property)."""
import json, os, sys
VERIF = os.path.dirname(os.path.dirname(os.path.abspath(__file__)))
sys.path.insert(0, os.path.join(VERIF, "tools"))
from propcfg import PROPS, CLAIMS, NOT_CLAIMED

checks = []
for pid in sorted(CLAIMS):
    c = CLAIMS[pid]
    checks.append({
        "property_id": pid,
        "quick_cmd": f"./check {pid} quick",
        "thorough_cmd": f"./check {pid} thorough",
        "evidence_file": f"evidence/{pid}.json",
        "replay_cmd_template": f"./check {pid} --replay {{path}}",
        "engine": "lean4-model+correspondence",
        "level_claimed": {"category": "proof", "text": c["text"], "design_ref": c.get("design_ref", "DESIGN.md §6 " + pid)},
        "level_note": c["note"],
        "technique": c.get("technique", "Lean 4 theorems about a hand-written executable model; model tied to /repo by constants regenerated from the source on every run and by an executed impl-vs-model correspondence whose outputs are judged by the Lean spec"),
    })
m = {
    "version": 1,
    "setup_cmd": "./setup.sh",
    "hooks": {
        "guard": "hifitime_verif",
        "enable": "no source hooks are needed: every observable is public API; the harness links /repo as a path dependency (RUSTFLAGS unchanged)",
        "baseline_off_cmd": "cd /repo && cargo test --workspace --no-fail-fast --offline",
        "source_commits": [],
        "add_only": True,
    },
    "engines": [{
        "name": "lean4-model+correspondence",
        "path": "lean/ harness/ tools/decide.py",
        "serves_properties": sorted(CLAIMS),
        "kind_free_text": "machine-checked proof in Lean 4 about an executable model (lean/Hifi/Model), plus differential execution of the model against the real crate (harness/hv, lean driver) with the Lean spec as oracle",
    }],
    "checks": checks,
    "notes": "See DESIGN.md. known_findings.json lists recorded genuine defects (KNOWN-FINDING lines) and repaired ones (fix: commits in /repo).",
    "not_applicable": [{"property_id": k, "reason": v} for k, v in sorted(NOT_CLAIMED.items())],
}
json.dump(m, open(os.path.join(VERIF, "MANIFEST.json"), "w"), indent=1)
print("MANIFEST.json:", len(checks), "checks,", len(NOT_CLAIMED), "not claimed")
