#!/usr/bin/env python3
"""Re-apply every stored seeded change (seeded/<prop>-k/patch.diff) to a scratch worktree of the CURRENT /repo and
re-run the owning check against it: every one must still be reported as a VIOLATION with a concrete failing input.
The first shrunk failing inputs are collected into corpus/<prop>/seeded.txt (they pass on the unchanged tree and run
first on every check).  Writes notes/reseed.json.  A self-test of the machinery, not a registered check."""
import json, os, subprocess, glob, sys
VERIF = os.path.dirname(os.path.dirname(os.path.abspath(__file__)))
WT = "/tmp/reseed-wt"
res = []
only = sys.argv[1:]
corpus = {}
for d in sorted(glob.glob(os.path.join(VERIF, "seeded", "C*-*"))):
    sid = os.path.basename(d)
    if only and sid not in only:
        continue
    if not os.path.exists(os.path.join(d, "meta.json")):
        continue  # a note about a change that became moot
    prop = json.load(open(os.path.join(d, "meta.json")))["property"]
    subprocess.run(["git", "-C", "/repo", "worktree", "remove", "--force", WT], capture_output=True)
    subprocess.run(["git", "-C", "/repo", "worktree", "add", "-q", "--detach", WT, "HEAD"], check=True)
    r = subprocess.run(["git", "-C", WT, "apply", "--3way", os.path.join(d, "patch.diff")], capture_output=True, text=True)
    if r.returncode != 0:
        r = subprocess.run(["git", "-C", WT, "apply", os.path.join(d, "patch.diff")], capture_output=True, text=True)
    if r.returncode != 0 or b"<<<<<<<" in subprocess.run(["git", "-C", WT, "diff"], capture_output=True).stdout:
        res.append({"id": sid, "property": prop, "result": "patch no longer applies to the current tree"})
        print(res[-1], flush=True)
        continue
    for f in glob.glob(os.path.join(VERIF, "replays", prop + "-*.json")):
        os.remove(f)
    env = dict(os.environ, VERIF_REPO=WT)
    r = subprocess.run([os.path.join(VERIF, "check"), prop, "quick"], capture_output=True, text=True, env=env, cwd=VERIF)
    lines = [l for l in r.stdout.split("\n") if l.startswith("VIOLATION") or l.startswith("OK")]
    inputs = []
    for f in sorted(glob.glob(os.path.join(VERIF, "replays", prop + "-*.json"))):
        try:
            c = json.load(open(f)).get("cases") or []
            # the input AS GENERATED (cases[1]) when there is one: the shrunk form (cases[0]) can leave the generator's domain
            if c and c[-1].get("input"):
                inputs.append(c[-1]["input"])
        except Exception:
            pass
    caught = r.returncode == 1 and any(l.startswith("VIOLATION") and "no-failing-input-found" not in l for l in lines)
    res.append({"id": sid, "property": prop, "caught_with_failing_input": caught, "first_line": (lines or [""])[0][:120], "inputs": inputs[:3]})
    print(res[-1], flush=True)
    if caught:
        corpus.setdefault(prop, []).append((sid, inputs[:3]))
subprocess.run(["git", "-C", "/repo", "worktree", "remove", "--force", WT], capture_output=True)
subprocess.run("rm -rf " + os.path.join(VERIF, "work", "harness-*"), shell=True)
if not only:
    for prop, items in corpus.items():
        os.makedirs(os.path.join(VERIF, "corpus", prop), exist_ok=True)
        with open(os.path.join(VERIF, "corpus", prop, "seeded.txt"), "w") as f:
            f.write("# shrunk failing inputs of the stored seeded changes (tools/reseed_all.py): they pass on the unchanged tree\n")
            for sid, ins in items:
                f.write(f"# {sid}\n")
                for i in ins:
                    f.write(i + "\n")
    json.dump(res, open(os.path.join(VERIF, "notes", "reseed.json"), "w"), indent=1)
print("caught", sum(1 for r in res if r.get("caught_with_failing_input")), "of", len(res))
