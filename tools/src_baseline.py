#!/usr/bin/env python3
"""Source fingerprints of the tree the model was transcribed from.

  src_baseline.py write      record sha256 of every file under <repo>/src and <repo>/data in tools/src_baseline.json
  (imported by decide.py)    changed(repo) -> list of files whose content differs from the recorded one

The fingerprints are NOT part of the tie and never raise an alarm: a harmless rewrite changes them too.
They only decide how much of the search budget a quick check spends: when the sources a model was
transcribed from have changed, the quick tier also runs the search of DESIGN §5 step 3 (thorough
generator, several seeds) before it answers.  Re-record after every commit to /repo.
"""
import hashlib, json, os, sys
VERIF = os.path.dirname(os.path.dirname(os.path.abspath(__file__)))
FILE = os.path.join(VERIF, "tools", "src_baseline.json")


def fingerprints(repo):
    out = {}
    for top in ("src", "data"):
        for dp, dn, fn in os.walk(os.path.join(repo, top)):
            for f in fn:
                p = os.path.join(dp, f)
                try:
                    out[os.path.relpath(p, repo)] = hashlib.sha256(open(p, "rb").read()).hexdigest()
                except OSError:
                    pass
    return out


def changed(repo):
    try:
        base = json.load(open(FILE))["files"]
    except Exception:
        return ["<no baseline recorded>"]
    now = fingerprints(repo)
    return sorted(k for k in set(base) | set(now) if base.get(k) != now.get(k))


if __name__ == "__main__":
    if sys.argv[1:2] == ["write"]:
        repo = sys.argv[2] if len(sys.argv) > 2 else "/repo"
        import subprocess
        head = subprocess.run(["git", "-C", repo, "rev-parse", "HEAD"], capture_output=True, text=True).stdout.strip()
        json.dump({"repo_head": head, "files": fingerprints(repo)}, open(FILE, "w"), indent=0, sort_keys=True)
        print("recorded", len(fingerprints(repo)), "files at", head)
    else:
        print("\n".join(changed(sys.argv[1] if len(sys.argv) > 1 else "/repo")) or "unchanged")
