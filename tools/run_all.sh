#!/bin/bash
# run_all.sh [quick|thorough] : every claimed check (and the pseudo-property streams) against /repo, one summary line each
cd "$(dirname "$0")/.."
T=${1:-quick}
for P in $(python3 -c "import sys; sys.path.insert(0,'tools'); import propcfg; print(' '.join(sorted(propcfg.PROPS)))"); do
  echo "== $P $(./check $P $T 2>&1 | grep -E 'VIOLATION|^OK|^error|Error' | cut -c1-200 | head -3 | tr '\n' ' ')"
done
