"""Further generated tables (one function per table family); called by gen_tables.main()."""

GENERATORS = []


def generate(c, report, write_if_changed, GEN, REPO):
    for g in GENERATORS:
        g(c, report, write_if_changed, GEN, REPO)
