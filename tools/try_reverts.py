#!/usr/bin/env python3
"""For every `fix:` commit of /repo: revert it in a scratch worktree and run the checks of the
properties it was made for (VERIF_REPO mode).  Every revert must be reported as a VIOLATION.
Writes notes/reverts.json.  Not a registered check: a self-test of the machinery."""
import json, os, subprocess, sys
VERIF = os.path.dirname(os.path.dirname(os.path.abspath(__file__)))
WT = "/tmp/revert-wt"
k = json.load(open(os.path.join(VERIF, "known_findings.json")))
fixed = [f for f in k["findings"] if f.get("status") == "fixed"]
subprocess.run(["git", "-C", "/repo", "worktree", "remove", "--force", WT], capture_output=True)
subprocess.run(["git", "-C", "/repo", "worktree", "add", "-q", WT, "HEAD"], check=True)
results = []
only = sys.argv[1:]
for f in fixed:
    if only and f["id"] not in only:
        continue
    shas = f["commit"].split("/")
    subprocess.run(["git", "-C", WT, "reset", "-q", "--hard", "HEAD"], check=True)
    ok = True
    for sha in shas:
        d = subprocess.run(["git", "-C", "/repo", "diff", sha + "^", sha], capture_output=True, text=True).stdout
        r = subprocess.run(["git", "-C", WT, "apply", "-R", "--3way"], input=d, capture_output=True, text=True)
        if r.returncode != 0:
            r = subprocess.run(["git", "-C", WT, "apply", "-R"], input=d, capture_output=True, text=True)
        if r.returncode != 0:
            ok = False
            results.append({"id": f["id"], "commit": f["commit"], "result": "revert does not apply cleanly: " + r.stderr[-200:]})
    if not ok:
        continue
    for prop in f["properties"]:
        env = dict(os.environ, VERIF_REPO=WT)
        r = subprocess.run([os.path.join(VERIF, "check"), prop, "quick"], capture_output=True, text=True, env=env, cwd=VERIF)
        lines = [l for l in r.stdout.split("\n") if l.startswith("VIOLATION") or l.startswith("OK")]
        results.append({"id": f["id"], "commit": f["commit"], "property": prop, "exit": r.returncode,
                        "caught": r.returncode == 1 and any(l.startswith("VIOLATION") for l in lines),
                        "with_failing_input": any(l.startswith("VIOLATION") and "no-failing-input-found" not in l for l in lines),
                        "first_line": (lines or [""])[0][:160]})
        print(results[-1], flush=True)
subprocess.run(["git", "-C", "/repo", "worktree", "remove", "--force", WT], capture_output=True)
subprocess.run(["rm", "-rf"] + [os.path.join(VERIF, "work", d) for d in os.listdir(os.path.join(VERIF, "work")) if d.startswith("harness-")])
out = os.path.join(VERIF, "notes", "reverts.json")
if only and os.path.exists(out):  # partial run: merge into the existing record
    prev = [r for r in json.load(open(out)) if r["id"] not in only]
    results = prev + results
json.dump(results, open(out, "w"), indent=1)
print("caught", sum(1 for r in results if r.get("caught")), "of", len(results))
