#!/usr/bin/env python3
"""save_seeded.py <worktree name under /tmp/mut> <property> <suffix> "<check result>" "<why caught>" : store a confirmed seeded change"""
import json, os, shutil, subprocess, sys
name, prop, suffix, res, why = sys.argv[1:6]
W = f"/tmp/mut/{name}"
d = f"/verif/seeded/{prop}-{suffix}"
os.makedirs(d, exist_ok=True)
shutil.copy(W + "/patch.diff", d)
src = W + "/seeded_demo_moved.rs"
shutil.copy(src if os.path.exists(src) else W + "/seeded_demo.rs", d + "/seeded_demo.rs")
shutil.copy(W + "/meta.json", d + "/meta.agent.json")
a = json.load(open(d + "/meta.agent.json"))
m = {"property": prop, "breaks": a.get("what_it_breaks"), "needs_to_manifest": a.get("needs_to_manifest"),
     "origin": "fresh sub-agent given only the property text and a scratch worktree (plus, for second-wave changes, a hint which code areas earlier seeded changes already used)",
     "confirmed": "suite (109 tests + 40 doctests) green with the change, demo fails with / passes without it (agent's run, see meta.agent.json; re-run by the lead with tools/confirm_seeded.sh from wave 17 on); check run with VERIF_REPO=<worktree> ./check %s quick" % prop,
     "check_result": res, "why_caught": why}
json.dump(m, open(d + "/meta.json", "w"), indent=1)
subprocess.run(["git", "-C", "/repo", "worktree", "remove", "--force", W])
print("saved", d)
