#!/bin/bash
# runs the repository's own suite (guard off) and prints a one-line summary; exit 0 iff it built and all passed
cd /repo && cargo test --workspace --no-fail-fast --offline 2>&1 | awk '/^test result/ {p+=$4; f+=$6} /FAILED|panicked|^error/ {print; if ($0 ~ /^error/) e=1} END {print "passed=" p+0 " failed=" f+0 (e ? " build-error" : ""); exit (f>0 || e || p==0)}'
