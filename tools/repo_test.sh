#!/bin/bash
# runs the repository's own suite (guard off) and prints a one-line summary; exit 0 iff all passed
cd /repo && cargo test --workspace --no-fail-fast --offline 2>&1 | awk '/^test result/ {p+=$4; f+=$6} /FAILED|panicked/ {print} END {print "passed=" p " failed=" f; exit (f>0)}'
