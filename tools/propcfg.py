"""Per-property configuration of the checks (sizes, descriptions, trusted base)."""

def P(n_quick=20000, n_thorough=2000000, **kw):
    d = {"n_quick": n_quick, "n_thorough": n_thorough, "shards": 8, "search_seeds": 4}
    d.update(kw)
    return d

PROPS = {
    "C01": P(rule="pairs from the duration lattice (bounds, k*NPC±δ, ±i64 limits, correlated partners landing on boundaries) and i64 factors; non-trivial = branch tag not ':zero'; distinct input lines are counted",
             assumptions=["Mul/Div<i64> and floor-family go through Duration::total_nanoseconds, whose handling of durations below -1 century (D1) is pinned by the suite: theorems for those ops carry the hypothesis that no operand is in that class"]),
    "C02": P(), "C03": P(), "C14": P(),
}

CLAIMS = {
    "C01": {
        "text": "Theorems (Lean 4, all canonical durations / all i64 factors): +, -, unary -, abs return a canonical duration whose value is exactly clamp(true result), never panic; Mul/Div<i64> likewise under the explicit hypothesis that no operand lies in the recorded defect class D1 (total_nanoseconds below -1 century, pinned by the suite). The model is tied to /repo by regenerated constants and by executing model and implementation on lattice-generated inputs; the Lean spec judges the implementation's outputs.",
        "note": "Trusted: Lean kernel + {propext, Classical.choice, Quot.sound}; the hand transcription of ops.rs/mod.rs/timeunits.rs into lean/Hifi/Model/Duration.lean (validated by the correspondence run only on the explored inputs); harness, gen_tables.py, decide.py. Partial on D1 (known finding).",
    },
}
ALL = ["C%02d" % i for i in range(1, 21)]
NOT_CLAIMED = {p: "model and theorems not built yet in this round (planned, see DESIGN.md §9)" for p in ALL if p not in CLAIMS}
