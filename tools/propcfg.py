"""Per-property configuration of the checks (sizes, descriptions, trusted base)."""

def P(n_quick=20000, n_thorough=2000000, **kw):
    d = {"n_quick": n_quick, "n_thorough": n_thorough, "shards": 8, "search_seeds": 4}
    d.update(kw)
    return d

PROPS = {
    "C01": P(rule="pairs from the duration lattice (bounds, k*NPC±δ, ±i64 limits, correlated partners landing on boundaries) and i64 factors; non-trivial = branch tag not ':zero'; distinct input lines are counted",
             assumptions=["Mul/Div<i64> and floor-family go through Duration::total_nanoseconds, whose handling of durations below -1 century (D1) is pinned by the suite: theorems for those ops carry the hypothesis that no operand is in that class"]),
    "C02": P(rule="counts from the i128 edge set and the duration lattice; raw (i16,u64) parts incl. ns >= NPC; unit counts at each unit's i64 and Duration overflow edges; composed fields up to 2^53; std durations up to u64::MAX s"),
    "C03": P(rule="pairs from the lattice: equal, opposite, one ns apart, one century apart, the shape (1,x)/(0,NPC-x) of the repaired defect, straddling zero; triples for sort"),
    "C14": P(rule="durations x steps from the lattice: unit steps, +/- steps, zero step, exact multiples and one off, steps larger than the operand, operands below -1 century (defect class D1)"),
}

CLAIMS = {
    "C01": {
        "text": "Theorems (Lean 4, all canonical durations / all i64 factors): +, -, unary -, abs return a canonical duration whose value is exactly clamp(true result), never panic; Mul/Div<i64> likewise under the explicit hypothesis that no operand lies in the recorded defect class D1 (total_nanoseconds below -1 century, pinned by the suite). The model is tied to /repo by regenerated constants and by executing model and implementation on lattice-generated inputs; the Lean spec judges the implementation's outputs.",
        "note": "Trusted: Lean kernel + {propext, Classical.choice, Quot.sound}; the hand transcription of ops.rs/mod.rs/timeunits.rs into lean/Hifi/Model/Duration.lean (validated by the correspondence run only on the explored inputs); harness, gen_tables.py, decide.py. Partial on D1 (known finding).",
    },
}
CLAIMS["C02"] = {
    "text": "Theorems: canonical form is unique and in range; from_total/from_parts/from_truncated/unit*i64/compose/std conversions return the canonical duration of the clamped count for ALL inputs; try_truncated/truncated never return a different number, succeed within +/-2 centuries, fail (or give the same-sign bound) outside i64; total_nanoseconds read-back exact outside recorded defect class D1 (pinned by the suite), with a decided counterexample inside it.",
    "note": "Trusted: Lean kernel + standard axioms; transcription of duration/mod.rs, timeunits.rs, duration/std.rs (validated by correspondence on explored inputs); harness/gen_tables/decide. Partial on D1.",
}
CLAIMS["C03"] = {
    "text": "Theorems for all canonical durations: derived Ord equals the order of the signed counts (total, antisymmetric, transitive, cmp = 0 iff identical); == holds iff counts are equal or exact opposites within one century of zero (so never between different magnitudes); a+b>a iff b>0 away from saturation; min/max pick by count.",
    "note": "Trusted: Lean kernel + standard axioms; transcription of PartialEq/derived Ord/min/max (validated by correspondence); harness/decide. Unit comparisons and sort are covered by the correspondence run and by the same cmp/eq theorems through unit*1.",
}
CLAIMS["C14"] = {
    "text": "Theorems: the integer spec floor is a multiple of the step, <= d < floor+|s| and the greatest such multiple; zero step gives zero; Duration::floor/ceil/round equal the spec (saturated, ceil from the returned floor, round ties up) for all canonical operands outside recorded defect class D1 (operands more than a century below zero), with a decided counterexample inside it. Epoch versions are definitional wrappers checked by correspondence.",
    "note": "Trusted: Lean kernel + standard axioms; transcription of floor/ceil/round/approx; harness/decide. Partial on D1 (total_nanoseconds, pinned by the suite).",
}
PROPS["C05"] = P(rule="epochs of the six uniform scales from the epoch lattice (around each scale's zero, 1900, leap seconds, century boundaries, +/-10 000 y, anything representable) x 36 ordered pairs; ops: conversion, round trip, commutation with +d, accessors, constructors, reference epochs")
CLAIMS["C05"] = {
    "text": "Theorems: for all 36 ordered pairs of {TAI,TT,GPST,QZSST,GST,BDT} and EVERY canonical duration for which no bound is hit, to_time_scale returns the canonical duration d + off(a) - off(b) (constant offset), is the identity for a = b, round-trips to the identical epoch and commutes with + duration; the offsets are pinned by decide to TT-TAI = 32.184 s and the calendar dates 1980-01-06/1999-08-22/2006-01-01 with 19/19/33 s, and all duplicated constants in the sources agree.",
    "note": "Trusted: Lean kernel + standard axioms; transcription of to_time_scale's uniform arms (validated by correspondence); constants regenerated from /repo each run (hv dump-consts, regex for prime_epoch_offset); Spec.civilDays for the three dates (a closed formula, cross-checked against the successor-structure calendar in C08).",
}
PROPS["C06"] = P(n_quick=24000, rule="every second in +/-40 s of each of the 28 IERS entries (x4 sub-second offsets) in both directions and round trip, then random instants aimed at leap seconds, 1960-1972 (SOFA entries), far past/future; provider queries (built-in, shipped file, generated IERS-format files); monotonicity probes")
CLAIMS["C06"] = {
    "text": "Theorems: (table, decide +kernel over the whole tables) IERS-flagged built-in entries = entries loaded from data/leap-seconds.list = raw text of that file = NAIF DELTET/DELTA_AT (dates through the calendar), 28 entries 10..37 s increasing by one; SOFA entries cannot influence IERS-only lookups (any table, by induction); UTC->TAI adds exactly the step function of the IERS file for every canonical UTC duration, hence strictly increasing; UTC->TAI->UTC is the identity (proved for ANY table with increasing stamps and non-decreasing offsets, by induction, and for the Dur-level model of the shipped table); TAI->UTC strictly increasing on every instant with a UTC pre-image — PARTIAL inside inserted seconds (recorded finding D9b with a decided counterexample).",
    "note": "Trusted: Lean kernel + standard axioms; transcription of leap_seconds_with and the two UTC arms (validated by correspondence incl. every second around every leap second); tables regenerated from /repo each run. f64 time stamps/offsets are integer-valued with exact products (checked at generation). from_path's line grammar is modelled in the driver only (generated files), not proved.",
}
PROPS["C04"] = P(rule="epochs of the seven non-dynamical scales (and ET/TDB for the scale-preservation clause) from the epoch lattice x durations (lattice, small offsets, partners landing on bounds); ops + - += -= +Unit -Unit +f64(integer seconds) Epoch-Epoch (same and different scales) and the three algebraic identities; Epoch floor/ceil/round wrappers")
CLAIMS["C04"] = {
    "text": "Theorems (all canonical epochs/durations, all nine scales for the first three): e +/- d has the same scale and exactly the clamped elapsed time; +/- Unit likewise; + integer float seconds exact while the product k*1e9 is exact in binary64; (e+d)-e = d, (e+d)-d = e, e+(f-e) = f whenever no bound is hit; Epoch - Epoch in the same scale is the difference of elapsed times and across scales (uniform left operand) the clamped difference of the instants.",
    "note": "Trusted: Lean kernel + standard axioms; the model of Epoch arithmetic is a thin wrapper over the Duration model (C01 theorems); correspondence validates the wrappers incl. +=/-=. Epoch + f64 beyond |k| ~ 4.6e9 s is inexact in binary64 (D19, inherent, outside the statement): the driver leaves it to the spec verdict 'no panic' only. Epoch floor/ceil/round inherit D1 (known finding).",
}
PROPS["C12"] = P(rule="pairs/triples over the seven non-dynamical scales: same instant in two scales, 1-2 ns apart, symmetric about the reference, +/-40 s across leap seconds, unrelated; ops == != < <= > >= cmp min max (inherent and Ord), sort, Range::contains, comparison after converting either operand")
CLAIMS["C12"] = {
    "text": "Theorems for every pair of epochs in {TAI,TT,UTC,GPST,GST,BDT,QZSST} at least 4 centuries inside the duration bounds: cmp = compare of the instants (TAI ns, UTC through the step function of the IERS file), == iff same instant, exactly one of < == > and eq iff cmp = 0, antisymmetric, symmetric, transitive, min/max pick by instant, conversion of an operand into any uniform scale preserves its instant (and UTC->TAI->UTC is the identity).",
    "note": "Trusted: Lean kernel + standard axioms; transcription of PartialEq/Ord for Epoch (post-fix: total order of durations, UTC operand converted toward the other scale) validated by correspondence. ET/TDB operands: not modelled here (f64 sin); their 100 ns clause rests on C07 and is exercised by the C07 stream.",
}
PROPS["C15"] = P(n_quick=30000, rule="series over all seven non-dynamical start scales, end possibly in another scale; steps 1 ns .. 1 century; spans that are multiples of the step, one ns either side, non-multiples; inclusive/exclusive; up to 300 (quick) / 20000 (thorough) items per series; observables: count, first three items, last item, strict increase, scale, None after the end")
CLAIMS["C15"] = {
    "text": "Theorem run_spec (induction on the number of next() calls, any start index): for every canonical positive step and canonical non-saturated span, n calls yield exactly the items start + k*step for k = c, c+1, ... (each computed from the start), as many as satisfy k*step < D (exclusive) or <= D (inclusive) in closed form, then nothing; items strictly increasing while representable; the stop test is exact even when k*step itself exceeds the representable range.",
    "note": "Trusted: Lean kernel + standard axioms; transcription of TimeSeries::next; span = end - start is the C04-specified epoch difference (theorems there). Hypothesis: span strictly below Duration::MAX (a saturated span makes the inclusive series unbounded: outside the property's 'items representable' domain).",
}
PROPS["C16"] = P(rule="all 7x256 weekday+u8 / weekday-u8, 49 weekday pairs, 256 u8 and 256 i8 conversions exhaustively on every run; epochs at day edges (first/last ns, -50/-100/-238/-239/-500 ns) of random days of years 1-9999 in all seven scales, before and after 1900; next/previous (+ at midnight/noon)")
CLAIMS["C16"] = {
    "text": "Theorems: closed-form Z/7 laws for From<u8>, From<i8>, Weekday+Weekday, +u8, -u8 (never overflow, all values) and the weekday difference; the epoch weekday is (floor(days since the count's Monday origin)) mod 7 for EVERY canonical duration (constant over each civil day incl. first and last ns, negative durations too), anchored at 1900-01-01 = Monday with cross-checks; next/previous land exactly 1..7 whole days away on the requested weekday (TAI epochs, no bound hit).",
    "note": "Trusted: Lean kernel + standard axioms; transcription of weekday.rs and weekday_in_time_scale/next/previous (post-fix integer day count). next/previous for non-TAI scales and the *_at_midnight/noon variants are covered by correspondence only; for UTC epochs a leap second inside the jump can move the TAI weekday edge (excluded from the verdict, stated).",
}
PROPS["C20"] = P(rule="u32 weeks incl. the saturation edge and u64 ns incl. >= one week; epochs at/after the reference (week starts/ends); the four ns counters with counts around 0, one century, u64::MAX and epochs either side of each GNSS reference in every scale")
CLAIMS["C20"] = {
    "text": "Theorems: from_time_of_week = clamp(week*7d + ns) for all inputs; to_time_of_week of any epoch at/after the reference is (val / W, val % W) with exact casts, unique, and the two are mutually inverse; ns counters round-trip exactly below one century and are an error from one century on, and for any epoch the counter is returned iff the elapsed time in that scale is in [0, 1 century) and then equals it.",
    "note": "Trusted: Lean kernel + standard axioms; transcription of from/to_time_of_week and to_nanoseconds_in_time_scale. The day-of-year clause (f64) is exercised by the calendar checks (C08/C09 correspondence), not proved here.",
}
PROPS["C07"] = P(rule="epochs within +/-10 000 years of J2000 in the six uniform scales and in ET/TDB themselves (around J2000, day and century boundaries, uniform); ops: conversion to/from ET and TDB, round trip, order of instants >100 ns apart, the four duration accessors; the branch tag records bit-equality of model and implementation and the round-trip error bucket")
CLAIMS["C07"] = {
    "text": "PARTIAL by nature (f64::sin is unspecified libm). Theorems about the ALGORITHM (the same generic definitions the driver runs at hardware Float, instantiated at R with Real.sin): the offset added by TAI->ET deviates from the NAIF closed form 32.184 + K sin E(ET) by at most K(1+EB)M1*6K <= 3.4e-12 s; TAI->ET->TAI returns within K(1+EB)M1*(32.184+11K) <= 1.09e-8 s (< 20 ns); TAI->ET is strictly increasing (Lipschitz argument); same bounds for the ESA/TDB constants; NAIF constants in the sources = DELTET/* block of naif0012.txt, J2000 offset pinned. The binary64 evaluation is tied bit-for-bit to the implementation by the correspondence run and judged by the property's closed forms with its 30/20/100 ns tolerances.",
    "note": "Trusted: Lean kernel + standard axioms (Mathlib Real analysis); the platform libm sin (used by both Rust and the Lean driver); Python's correctly rounded float() for the bit patterns of decimal literals; the rounding error of the binary64 evaluation is measured, not proved. TDB's forward loop has an early exit: the R theorems are stated for any estimate within 5K of the input, which covers every exit point.",
    "technique": "Lean 4 + Mathlib theorems about the real-arithmetic algorithm (one generic definition shared with the executable Float model); Float model tied bit-for-bit to /repo by executed correspondence; property's closed forms as oracle",
}
PROPS["C17"] = P(rule="epochs within +/-10 000 years of 1900 in the seven non-dynamical scales; 5 duration-valued and 22 float-valued accessors; from_mjd/from_jde in six scales, from_unix_seconds/milliseconds/duration; view round trips; MJD/JD/UNIX floats at day, half-day, second and millisecond granularity and random")
CLAIMS["C17"] = {
    "text": "Theorems: the constants (MJD of 1900-01-01 = 15020 d, JD = MJD + 2400000.5 d, J2000 = 3155716800 s, UNIX origin = 1970-01-01 from the calendar) are pinned and canonical; every duration-valued view (to_jde_tai/utc/tt_duration, to_mjd_tt_duration, to_tt_since_j2k, to/from UNIX duration) is the elapsed time shifted by exactly that constant for all canonical durations inside the stated margins; UNIX duration round trip is the identity; the per-scale reference dates used by from_mjd/from_jde are whole days 1980-01-06/1999-08-22/2006-01-01. PARTIAL: float-valued accessors and float constructors are executed with hardware floats in the driver (bit-for-bit equal to the implementation on every case) and judged in exact rational arithmetic against 4 ulp (accessors) / 2 ulp of the magnitudes involved + 1 ns (constructors); no kernel theorem about binary64 rounding is claimed here (SoftF64 lemmas are in C18).",
    "note": "Trusted: Lean kernel + standard axioms; exactness in binary64 of 15020*8.64e13, 2400000.5*8.64e13 and 2415020.5*8.64e13 (odd parts below 2^53; also confirmed by the correspondence run); hardware float evaluation in the Lean driver; the transcription of the accessors.",
    "technique": "Lean 4 theorems for the duration-valued views; hardware-float executable model tied bit-for-bit by correspondence, exact-rational oracle for the float views",
}
ALL = ["C%02d" % i for i in range(1, 21)]
NOT_CLAIMED = {p: "model and theorems not built yet in this round (planned, see DESIGN.md §9)" for p in ALL if p not in CLAIMS}
