"""Per-property configuration of the checks (sizes, descriptions, trusted base)."""

def P(n_quick=20000, n_thorough=2000000, **kw):
    d = {"n_quick": n_quick, "n_thorough": n_thorough, "shards": 8, "search_seeds": 4}
    d.update(kw)
    return d

PROPS = {
    "C01": P(rule="pairs from the duration lattice (bounds, k*NPC±δ, ±i64 limits, correlated partners landing on boundaries) and i64 factors; non-trivial = branch tag not ':zero'; distinct input lines are counted",
             assumptions=["Mul/Div<i64> and floor-family go through Duration::total_nanoseconds, whose handling of durations below -1 century (D1) is pinned by the suite: theorems for those ops carry the hypothesis that no operand is in that class"]),
    "C02": P(rule="counts from the i128 edge set and the duration lattice; raw (i16,u64) parts incl. ns >= NPC; unit counts at each unit's i64 and Duration overflow edges; composed fields up to 2^53; std durations up to u64::MAX s"),
    "C03": P(rule="pairs from the lattice: equal, opposite, one ns apart, one century apart, the shape (1,x)/(0,NPC-x) of the repaired defect, straddling zero; triples for sort"),
    "C14": P(rule="durations x steps from the lattice: unit steps, +/- steps, zero step, exact multiples and one off, steps larger than the operand, operands below -1 century (defect class D1)"),
}

CLAIMS = {
    "C01": {
        "text": "Theorems (Lean 4, all canonical durations / all i64 factors): +, -, unary -, abs return a canonical duration whose value is exactly clamp(true result), never panic; Mul/Div<i64> likewise under the explicit hypothesis that no operand lies in the recorded defect class D1 (total_nanoseconds below -1 century, pinned by the suite). The model is tied to /repo by regenerated constants and by executing model and implementation on lattice-generated inputs; the Lean spec judges the implementation's outputs.",
        "note": "Trusted: Lean kernel + {propext, Classical.choice, Quot.sound}; the hand transcription of ops.rs/mod.rs/timeunits.rs into lean/Hifi/Model/Duration.lean (validated by the correspondence run only on the explored inputs); harness, gen_tables.py, decide.py. Partial on D1 (known finding).",
    },
}
CLAIMS["C02"] = {
    "text": "Theorems: canonical form is unique and in range; from_total/from_parts/from_truncated/unit*i64/compose/std conversions return the canonical duration of the clamped count for ALL inputs; try_truncated/truncated never return a different number, succeed within +/-2 centuries, fail (or give the same-sign bound) outside i64; total_nanoseconds read-back exact outside recorded defect class D1 (pinned by the suite), with a decided counterexample inside it.",
    "note": "Trusted: Lean kernel + standard axioms; transcription of duration/mod.rs, timeunits.rs, duration/std.rs (validated by correspondence on explored inputs); harness/gen_tables/decide. Partial on D1.",
}
CLAIMS["C03"] = {
    "text": "Theorems for all canonical durations: derived Ord equals the order of the signed counts (total, antisymmetric, transitive, cmp = 0 iff identical); == holds iff counts are equal or exact opposites within one century of zero (so never between different magnitudes); a+b>a iff b>0 away from saturation; min/max pick by count.",
    "note": "Trusted: Lean kernel + standard axioms; transcription of PartialEq/derived Ord/min/max (validated by correspondence); harness/decide. Unit comparisons and sort are covered by the correspondence run and by the same cmp/eq theorems through unit*1.",
}
CLAIMS["C14"] = {
    "text": "Theorems: the integer spec floor is a multiple of the step, <= d < floor+|s| and the greatest such multiple; zero step gives zero; Duration::floor/ceil/round equal the spec (saturated, ceil from the returned floor, round ties up) for all canonical operands outside recorded defect class D1 (operands more than a century below zero), with a decided counterexample inside it. Epoch versions are definitional wrappers checked by correspondence.",
    "note": "Trusted: Lean kernel + standard axioms; transcription of floor/ceil/round/approx; harness/decide. Partial on D1 (total_nanoseconds, pinned by the suite).",
}
PROPS["C05"] = P(rule="epochs of the six uniform scales from the epoch lattice (around each scale's zero, 1900, leap seconds, century boundaries, +/-10 000 y, anything representable) x 36 ordered pairs; ops: conversion, round trip, commutation with +d, accessors, constructors, reference epochs")
CLAIMS["C05"] = {
    "text": "Theorems: for all 36 ordered pairs of {TAI,TT,GPST,QZSST,GST,BDT} and EVERY canonical duration for which no bound is hit, to_time_scale returns the canonical duration d + off(a) - off(b) (constant offset), is the identity for a = b, round-trips to the identical epoch and commutes with + duration; the offsets are pinned by decide to TT-TAI = 32.184 s and the calendar dates 1980-01-06/1999-08-22/2006-01-01 with 19/19/33 s, and all duplicated constants in the sources agree.",
    "note": "Trusted: Lean kernel + standard axioms; transcription of to_time_scale's uniform arms (validated by correspondence); constants regenerated from /repo each run (hv dump-consts, regex for prime_epoch_offset); Spec.civilDays for the three dates (a closed formula, cross-checked against the successor-structure calendar in C08).",
}
PROPS["C06"] = P(n_quick=24000, rule="every second in +/-40 s of each of the 28 IERS entries (x4 sub-second offsets) in both directions and round trip, then random instants aimed at leap seconds, 1960-1972 (SOFA entries), far past/future; provider queries (built-in, shipped file, generated IERS-format files); monotonicity probes")
CLAIMS["C06"] = {
    "text": "Theorems: (table, decide +kernel over the whole tables) IERS-flagged built-in entries = entries loaded from data/leap-seconds.list = raw text of that file = NAIF DELTET/DELTA_AT (dates through the calendar), 28 entries 10..37 s increasing by one; SOFA entries cannot influence IERS-only lookups (any table, by induction); UTC->TAI adds exactly the step function of the IERS file for every canonical UTC duration, hence strictly increasing; UTC->TAI->UTC is the identity (proved for ANY table with increasing stamps and non-decreasing offsets, by induction, and for the Dur-level model of the shipped table); TAI->UTC strictly increasing on every instant with a UTC pre-image — PARTIAL inside inserted seconds (recorded finding D9b with a decided counterexample).",
    "note": "Trusted: Lean kernel + standard axioms; transcription of leap_seconds_with and the two UTC arms (validated by correspondence incl. every second around every leap second); tables regenerated from /repo each run. f64 time stamps/offsets are integer-valued with exact products (checked at generation). from_path's line grammar is modelled in the driver only (generated files), not proved.",
}
ALL = ["C%02d" % i for i in range(1, 21)]
NOT_CLAIMED = {p: "model and theorems not built yet in this round (planned, see DESIGN.md §9)" for p in ALL if p not in CLAIMS}
