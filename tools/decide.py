#!/usr/bin/env python3
"""Orchestrator of one property check (see DESIGN.md §5).

  decide.py <Cxx> quick|thorough
  decide.py <Cxx> --replay <file>

P  proof:   lake build Hifi.Props.<Cxx> against tables regenerated from /repo, source audit,
            `#print axioms` audit of every theorem of the property file.
T  tie:     model (Lean driver) vs implementation (hv exec) on generated inputs.
S  search:  the Lean spec judged on the implementation's actual results.
"""
import fcntl, hashlib, json, os, re, subprocess, sys, time

VERIF = os.path.dirname(os.path.dirname(os.path.abspath(__file__)))
sys.path.insert(0, os.path.join(VERIF, "tools"))
import gen_tables  # noqa: E402
import src_baseline  # noqa: E402
from propcfg import PROPS  # noqa: E402

LEAN = os.path.join(VERIF, "lean")
HARNESS = os.path.join(VERIF, "harness")
# VERIF_REPO=<dir>: run the check against another checkout (used only to try seeded changes without
# touching /repo); the registered commands never set it.
ALT_REPO = os.environ.get("VERIF_REPO")
if ALT_REPO and os.path.abspath(ALT_REPO) != "/repo":
    import shutil
    alt = os.path.join(VERIF, "work", "harness-" + hashlib.sha1(os.path.abspath(ALT_REPO).encode()).hexdigest()[:8])
    os.makedirs(alt, exist_ok=True)
    for item in ("src", ".cargo", "Cargo.lock"):
        srcp = os.path.join(HARNESS, item)
        dstp = os.path.join(alt, item)
        if os.path.isdir(srcp):
            shutil.rmtree(dstp, ignore_errors=True)
            shutil.copytree(srcp, dstp)
        else:
            shutil.copy(srcp, dstp)
    toml = open(os.path.join(HARNESS, "Cargo.toml")).read().replace('path = "/repo"', 'path = "%s"' % os.path.abspath(ALT_REPO))
    open(os.path.join(alt, "Cargo.toml"), "w").write(toml)
    HARNESS = alt
    os.environ["HIFI_REPO"] = os.path.abspath(ALT_REPO)
HV = os.path.join(HARNESS, "target", "debug", "hv")
os.environ["HV_BIN"] = HV
DRIVER = os.path.join(LEAN, ".lake", "build", "bin", "driver")
WORK = os.path.join(VERIF, "work")
ALLOWED_AXIOMS = {"propext", "Classical.choice", "Quot.sound"}
FORBIDDEN = re.compile(r"\b(sorry|admit|native_decide|bv_decide|implemented_by|unsafe)\b|^axiom\s|maxHeartbeats\s+0", re.M)

ENV = dict(os.environ)
ENV["CARGO_NET_OFFLINE"] = "true"


def sh(cmd, cwd=None, timeout=None, inp=None):
    return subprocess.run(cmd, cwd=cwd, capture_output=True, text=True, timeout=timeout, env=ENV, input=inp)


class Lock:
    def __enter__(self):
        self.f = open(os.path.join(VERIF, ".lock"), "w")
        fcntl.flock(self.f, fcntl.LOCK_EX)
        return self

    def __exit__(self, *a):
        fcntl.flock(self.f, fcntl.LOCK_UN)
        self.f.close()


def strip_comments(src):
    # remove /- … -/ (nested) and -- … comments
    out, i, depth = [], 0, 0
    while i < len(src):
        if src.startswith("/-", i):
            depth += 1
            i += 2
        elif depth and src.startswith("-/", i):
            depth -= 1
            i += 2
        elif depth:
            i += 1
        elif src.startswith("--", i):
            j = src.find("\n", i)
            i = len(src) if j < 0 else j
        else:
            out.append(src[i])
            i += 1
    return "".join(out)


def theorems_of(path):
    src = strip_comments(open(path).read())
    ns = []
    names = []
    for m in re.finditer(r"^(namespace|end|theorem)\s+([A-Za-z0-9_.'!?]+)", src, re.M):
        kind, name = m.group(1), m.group(2)
        if kind == "namespace":
            ns.append(name)
        elif kind == "end":
            if ns and ns[-1].split(".")[-1] == name.split(".")[-1] or (ns and ns[-1] == name):
                ns.pop()
        else:
            names.append(".".join(ns + [name]))
    return names


def lean_sources():
    res = []
    for root, _, files in os.walk(os.path.join(LEAN, "Hifi")):
        for f in files:
            if f.endswith(".lean"):
                res.append(os.path.join(root, f))
    res.append(os.path.join(LEAN, "Driver.lean"))
    return res


def build_all(prop, log):
    """returns dict(proof_ok, failing_theorems, axioms, obligations, discharged, notes)"""
    info = {"proof_ok": True, "failing": [], "axioms": {}, "obligations": 0, "discharged": 0, "notes": []}
    t0 = time.time()
    # 1. harness against the current /repo
    r = sh(["cargo", "build", "--offline"], cwd=HARNESS, timeout=1800)
    if r.returncode != 0:
        log("cargo build failed:\n" + r.stderr[-3000:])
        info["harness_failed"] = True
        info["notes"].append("harness does not build against /repo: " + r.stderr[-600:])
        return info
    info["t_cargo"] = round(time.time() - t0, 1)
    # 2. tables
    rep = gen_tables.main()
    info["gen"] = rep
    # 3. driver
    t1 = time.time()
    r = sh(["lake", "build", "driver"], cwd=LEAN, timeout=3600)
    if r.returncode != 0:
        log("driver build failed:\n" + (r.stdout + r.stderr)[-3000:])
        info["driver_failed"] = True
        info["notes"].append("driver does not build: " + (r.stdout + r.stderr)[-600:])
        return info
    info["t_driver"] = round(time.time() - t1, 1)
    # 4. proofs
    t2 = time.time()
    mod = "Hifi.Props." + prop
    pfile = os.path.join(LEAN, "Hifi", "Props", prop + ".lean")
    thms = theorems_of(pfile) if os.path.exists(pfile) else []
    info["obligations"] = len(thms)
    info["theorems"] = thms
    r = sh(["lake", "build", mod], cwd=LEAN, timeout=7200)
    built = r.returncode == 0
    if not built:
        out = r.stdout + r.stderr
        log("proof build failed:\n" + out[-4000:])
        info["proof_ok"] = False
        errs = re.findall(r"error: ([^\s:]+\.lean):(\d+):(\d+): (.*)", out)
        info["failing"] = sorted({f"{f}:{l}: {msg[:160]}" for f, l, _, msg in errs})[:20]
        if not errs:
            info["failing"] = [out[-400:]]
    info["t_proofs"] = round(time.time() - t2, 1)
    # 5. source audit
    bad = []
    for f in lean_sources():
        m = FORBIDDEN.search(strip_comments(open(f).read()))
        if m:
            bad.append(f"{os.path.relpath(f, LEAN)}: {m.group(0).strip()}")
    if bad:
        info["proof_ok"] = False
        info["failing"] += ["forbidden construct: " + b for b in bad]
    # 6. axiom audit
    if built and thms:
        t3 = time.time()
        adir = os.path.join(LEAN, ".audit")
        os.makedirs(adir, exist_ok=True)
        afile = os.path.join(adir, prop + ".lean")
        with open(afile, "w") as f:
            f.write(f"import {mod}\n" + "".join(f"#print axioms {t}\n" for t in thms))
        r = sh(["lake", "env", "lean", afile], cwd=LEAN, timeout=1800)
        out = r.stdout + r.stderr
        cur = None
        axioms = {}
        for m in re.finditer(r"'([^']+)' (depends on axioms: \[([^\]]*)\]|does not depend on any axioms)", out):
            name = m.group(1)
            axs = [a.strip() for a in (m.group(3) or "").replace("\n", " ").split(",") if a.strip()]
            axioms[name] = axs
        ok = 0
        for t in thms:
            if t in axioms and set(axioms[t]) <= ALLOWED_AXIOMS:
                ok += 1
            else:
                info["proof_ok"] = False
                info["failing"].append(f"axiom audit: {t}: {axioms.get(t, 'not reported')}")
        info["discharged"] = ok
        info["axioms_used"] = sorted({a for v in axioms.values() for a in v})
        info["t_audit"] = round(time.time() - t3, 1)
    elif built and not thms:
        info["proof_ok"] = False
        info["failing"].append("no theorems found in " + pfile)
    # 7. thorough tier: independent re-check of the compiled module by leanchecker
    if built and os.environ.get("VERIF_TIER_EFFECTIVE") == "thorough":
        t4 = time.time()
        r = sh(["lake", "env", "leanchecker", mod], cwd=LEAN, timeout=3600)
        info["leanchecker_rc"] = r.returncode
        if r.returncode != 0:
            info["proof_ok"] = False
            info["failing"].append("leanchecker: " + (r.stdout + r.stderr)[-300:])
        info["t_leanchecker"] = round(time.time() - t4, 1)
    return info


def run_cases(lines, log):
    """lines: input lines (no results).  Returns list of (input, impl, model, spec, cls, branch)."""
    if not lines:
        return []
    os.makedirs(WORK, exist_ok=True)
    inp = "\n".join(lines) + "\n"
    r = sh([HV, "exec"], inp=inp, timeout=7200)
    if r.returncode not in (0,):
        log(f"hv exec exit {r.returncode}: {r.stderr[-500:]}")
    impl_lines = [l for l in r.stdout.split("\n") if l]
    if len(impl_lines) != len(lines):
        # the executor died (abort): attribute to the first missing case
        log(f"hv exec produced {len(impl_lines)} of {len(lines)} lines; stderr: {r.stderr[-300:]}")
        k = len(impl_lines)
        impl_lines.append(lines[k] + " => abort")
        rest = run_cases(lines[k + 1:], log)
        head = drive(impl_lines, log)
        return head + rest
    return drive(impl_lines, log)


def drive(impl_lines, log):
    r = sh([DRIVER], inp="\n".join(impl_lines) + "\n", timeout=7200)
    outs = [l for l in r.stdout.split("\n") if l]
    if len(outs) != len(impl_lines):
        log(f"driver produced {len(outs)} of {len(impl_lines)} lines; stderr {r.stderr[-500:]}")
        outs += ["driver-died\tna\t-\t-"] * (len(impl_lines) - len(outs))
    res = []
    for il, ol in zip(impl_lines, outs):
        inp, impl = il.split(" => ", 1)
        f = ol.split("\t")
        while len(f) < 4:
            f.append("-")
        res.append((inp, impl.strip(), f[0].strip(), f[1], f[2], f[3]))
    return res


def load_known():
    p = os.path.join(VERIF, "known_findings.json")
    if not os.path.exists(p):
        return []
    return json.load(open(p))["findings"]


unmodelled = [0]


def classify(rows, prop, known_tags):
    """returns (violations, known_hits, tie_breaks, not_reproduced, agreements)"""
    viol, known, ties, notrep, agree = [], {}, [], [], 0
    global unmodelled
    for row in rows:
        inp, impl, model, spec, cls, branch = row
        tags = set() if cls in ("-", "") else set(cls.split(","))
        same = impl == model
        fail = spec.startswith("FAIL")
        listed = bool(tags) and tags <= known_tags
        if model in ("unmodelled", "-"):
            # the model deliberately says nothing here (documented per op): only the spec judges
            if fail:
                viol.append((row, "spec-failure-on-unmodelled-op"))
            else:
                unmodelled[0] += 1
            continue
        if model in ("bad-op", "bad-line", "driver-died") or impl == "bad-op":
            viol.append((row, "protocol"))
        elif same and not fail:
            agree += 1
        elif same and fail and listed:
            for t in tags:
                known.setdefault(t, []).append(row)
        elif same and fail:
            viol.append((row, "model-and-code-both-violate (unlisted)"))
        elif not same and fail:
            viol.append((row, "new-defect"))
        elif not same and listed:
            notrep.append(row)
        else:
            ties.append(row)
    return viol, known, ties, notrep, agree


def write_replay(prop, name, obj):
    d = os.path.join(VERIF, "replays")
    os.makedirs(d, exist_ok=True)
    p = os.path.join(d, f"{prop}-{name}.json")
    with open(p, "w") as f:
        json.dump(obj, f, indent=1)
    return os.path.relpath(p, VERIF)


def corpus_lines(prop):
    d = os.path.join(VERIF, "corpus", prop)
    lines = []
    if os.path.isdir(d):
        for fn in sorted(os.listdir(d)):
            for l in open(os.path.join(d, fn)):
                l = l.strip()
                if l and not l.startswith("#"):
                    lines.append(l.split(" => ")[0])
    return lines


def gen_lines(prop, seed, n, tier):
    r = sh([HV, "inputs", prop, str(seed), str(n), tier], timeout=3600)
    if r.returncode != 0:
        raise RuntimeError("hv inputs failed: " + r.stderr[-500:])
    return [l for l in r.stdout.split("\n") if l]


def _variants(tok):
    """simpler variants of one protocol token (durations c:ns, epochs c:ns:TS, integers; hex/f64 left alone)"""
    out = []
    parts = tok.split(":")
    def ints(x):
        try:
            return int(x)
        except ValueError:
            return None
    if len(parts) in (2, 3) and ints(parts[0]) is not None and ints(parts[1]) is not None:
        c, ns = int(parts[0]), int(parts[1])
        tail = parts[2:]
        cands = set()
        for c2 in {0, -1, 1, c // 2, c + (1 if c < 0 else -1 if c > 0 else 0)}:
            cands.add((c2, ns))
        for ns2 in {0, 1, ns // 2, ns - ns % 1000000000, ns - ns % 86400000000000, ns - 1 if ns > 0 else 0}:
            if 0 <= ns2 < 3155760000000000000:
                cands.add((c, ns2))
        cands.discard((c, ns))
        for c2, ns2 in cands:
            if -32768 <= c2 <= 32767:
                out.append(":".join([str(c2), str(ns2)] + tail))
    elif ints(tok) is not None and len(tok) < 40:
        v = int(tok)
        for v2 in {0, 1, -1, v // 2, v - 1 if v > 0 else v + 1 if v < 0 else 0}:
            if v2 != v:
                out.append(str(v2))
    return out


def shrink(row, why, log, rounds=12):
    """greedy delta-debugging on the fields of a violating case: keep a simpler line while it still
    fails the SAME spec clause with the same classification"""
    cur = row
    for _ in range(rounds):
        toks = cur[0].split(" ")
        cands = []
        for i in range(1, len(toks)):
            for v in _variants(toks[i]):
                cands.append(" ".join(toks[:i] + [v] + toks[i + 1:]))
        if not cands:
            break
        cands = cands[:200]
        rows = run_cases(cands, lambda m: None)
        better = None
        for r in rows:
            if r[3] == cur[3] and (r[1] == r[2]) == (cur[1] == cur[2]) and r[4] == cur[4] and r[2] not in ("bad-op", "bad-line"):
                if len(r[0]) < len(cur[0]) or (len(r[0]) == len(cur[0]) and r[0] < cur[0]):
                    if better is None or len(r[0]) < len(better[0]):
                        better = r
        if better is None:
            break
        cur = better
    return cur


def shrink_note(row):
    inp, impl, model, spec, cls, branch = row
    return {"input": inp, "impl": impl, "model": model, "spec": spec, "class": cls, "branch": branch}


def main():
    prop = sys.argv[1]
    cfg = PROPS[prop]
    t_start = time.time()
    logs = []

    def log(s):
        logs.append(s)
        print("[" + prop + "] " + s, file=sys.stderr)

    replay_file = None
    if len(sys.argv) > 3 and sys.argv[2] == "--replay":
        replay_file = sys.argv[3]
        tier = "quick"
    else:
        tier = sys.argv[2] if len(sys.argv) > 2 else os.environ.get("VERIF_TIER", "quick")
    seed = int(os.environ.get("VERIF_SEED", "20260926"))
    os.environ["VERIF_TIER_EFFECTIVE"] = tier

    with Lock():
        info = build_all(prop, log)
    known_all = load_known()
    known_here = [k for k in known_all if k.get("status") == "known" and prop in k.get("properties", [])]
    known_tags = {k["defect_tag"] for k in known_here}

    if replay_file:
        obj = json.load(open(replay_file))
        lines = [c["input"] for c in obj.get("cases", [])]
        rows = run_cases(lines, log)
        viol, known, ties, notrep, agree = classify(rows, prop, known_tags)
        for row in rows:
            print(json.dumps(shrink_note(row)))
        if viol or ties or not info["proof_ok"]:
            print(f"VIOLATION property={prop} replay={replay_file}" + ("" if viol else " no-failing-input-found"))
            sys.exit(1)
        print("replay: no violation on the current tree")
        sys.exit(0)

    if info.get("harness_failed") or info.get("driver_failed"):
        path = write_replay(prop, "unproved", {"property": prop, "reason": "machinery does not build against the current tree", "notes": info["notes"]})
        write_evidence(prop, cfg, tier, seed, info, [], [], {}, [], [], 0, t_start, 1, {})
        print(f"VIOLATION property={prop} replay={path} no-failing-input-found")
        sys.exit(1)

    # replays of earlier runs of this property are obsolete
    rd = os.path.join(VERIF, "replays")
    if os.path.isdir(rd):
        for fn in os.listdir(rd):
            if fn.startswith(prop + "-"):
                os.remove(os.path.join(rd, fn))
    n = cfg["n_thorough"] if tier == "thorough" else cfg["n_quick"]
    lines = corpus_lines(prop)
    ncorpus = len(lines)
    # witnesses of known findings and fixed findings run first as well
    wit = []
    for k in known_all:
        if prop in k.get("properties", []):
            for w in k.get("witnesses", []):
                if w.get("property", prop) == prop:
                    wit.append(w["input"])
    lines = wit + lines
    seeds = [seed] if tier == "quick" else [seed + i for i in range(cfg.get("shards", 4))]
    if len(seeds) == 1:
        lines += gen_lines(prop, seeds[0], n, tier)
        rows = run_cases(lines, log)
    else:
        # thorough: one shard per seed, generated and executed in parallel (16 cores)
        from concurrent.futures import ThreadPoolExecutor
        rows = run_cases(lines, log)
        def shard(s):
            return run_cases(gen_lines(prop, s, n // len(seeds), tier), log)
        with ThreadPoolExecutor(max_workers=min(len(seeds), 12)) as ex:
            for part in ex.map(shard, seeds):
                rows += part
    viol, known, ties, notrep, agree = classify(rows, prop, known_tags)

    # P failed or tie broken without a failing input: spend the search budget
    searched = 0
    # The sources the model was transcribed from differ from the recorded fingerprints (tools/src_baseline.py):
    # not an alarm and not part of the tie, but a reason to spend the search budget in the quick tier too.
    # (VERIF_NO_EXTENDED_SEARCH=1 is used only by the lead's own control sweeps to save time; no registered command sets it)
    src_changed = src_baseline.changed(os.environ.get("HIFI_REPO", "/repo")) if tier == "quick" and not os.environ.get("VERIF_NO_EXTENDED_SEARCH") else []
    if src_changed:
        log("sources differ from the recorded baseline (%s): quick tier runs the extended search" % ", ".join(src_changed[:6]))
    if (not info["proof_ok"] or ties or src_changed) and not viol:
        from concurrent.futures import ThreadPoolExecutor
        nseeds = max(cfg.get("search_seeds", 6), 8 if src_changed else 0)
        def search_shard(s):
            return run_cases(gen_lines(prop, seed * 7919 + 1 + s, cfg["n_quick"] * 2, "thorough"), log)
        rows2 = []
        with ThreadPoolExecutor(max_workers=8) as ex:
            for part in ex.map(search_shard, range(nseeds)):
                rows2 += part
        searched = len(rows2)
        v2, k2, t2, n2, a2 = classify(rows2, prop, known_tags)
        rows += rows2
        viol += v2
        for t, rs in k2.items():
            known.setdefault(t, []).extend(rs)
        ties += t2
        notrep += n2
        agree += a2

    # witnesses of known findings: still failing?
    stale = []
    known_lines = []
    witset = {}
    for row in rows[: len(wit)]:
        witset[row[0]] = row
    for k in known_here:
        still = False
        for w in k.get("witnesses", []):
            if w.get("property", prop) != prop:
                continue
            row = witset.get(w["input"])
            if row and row[3].startswith("FAIL"):
                still = True
        if k["defect_tag"] in known:
            still = True
        if still:
            known_lines.append(f"KNOWN-FINDING: property={prop} {k['id']} {k['what_fails']}")
        else:
            stale.append(k["id"])

    exit_code = 0
    out_lines = []
    replays = {}
    if viol:
        # group by branch tag, store up to 5 replays
        seen = set()
        count = 0
        for row, why in viol:
            key = (row[5], why)
            if key in seen:
                continue
            seen.add(key)
            count += 1
            if count > 5:
                break
            small = row
            try:
                small = shrink(row, why, log)
            except Exception as ex:  # shrinking is best effort
                log("shrink failed: %r" % (ex,))
            h = hashlib.sha1(row[0].encode()).hexdigest()[:10]
            path = write_replay(prop, h, {"property": prop, "why": why, "seed": seed, "tier": tier,
                                          "cases": [shrink_note(small)] + ([shrink_note(row)] if small is not row else []),
                                          "note": "cases[0] is the shrunk failing input, cases[1] (if present) the input as generated",
                                          "replay_cmd": f"./check {prop} --replay replays/{prop}-{h}.json"})
            out_lines.append(f"VIOLATION property={prop} replay={path}")
        exit_code = 1
    elif not info["proof_ok"] or ties:
        obj = {"property": prop, "seed": seed, "tier": tier,
               "unproved_theorems_or_errors": info["failing"],
               "correspondence_broken_on": [shrink_note(r) for r in ties[:10]],
               "cases": [shrink_note(r) for r in ties[:10]],
               "searched_extra_cases": searched,
               "note": "no input violating the property was found; the property is no longer shown to hold"}
        path = write_replay(prop, "unproved", obj)
        out_lines.append(f"VIOLATION property={prop} replay={path} no-failing-input-found")
        exit_code = 1

    write_evidence(prop, cfg, tier, seed, info, rows, viol, known, ties, notrep, agree, t_start,
                   len(viol) + (1 if exit_code and not viol else 0),
                   {"stale_findings": stale, "corpus_cases": ncorpus, "witness_cases": len(wit), "searched_extra": searched,
                    "source_files_changed_since_baseline": src_changed})
    for l in known_lines:
        print(l)
    for l in out_lines:
        print(l)
    if exit_code == 0:
        print(f"OK property={prop} tier={tier} theorems={info['discharged']}/{info['obligations']} cases={len(rows)} agree={agree} known={sum(len(v) for v in known.values())}")
    sys.exit(exit_code)


def write_evidence(prop, cfg, tier, seed, info, rows, viol, known, ties, notrep, agree, t_start, nviol, extra):
    hist = {}
    outcomes = {}
    distinct = set()
    for (inp, impl, model, spec, cls, branch) in rows:
        hist[branch] = hist.get(branch, 0) + 1
        o = impl.split(" ")[0]
        outcomes[o] = outcomes.get(o, 0) + 1
        if not any(branch.endswith(t) for t in cfg.get("trivial_branches", [":zero"])):
            distinct.add(inp)
    samples = []
    seen = set()
    for row in rows:
        if row[5] not in seen:
            seen.add(row[5])
            samples.append({"input": row[0], "impl": row[1], "model": row[2], "spec": row[3], "branch": row[5]})
        if len(samples) >= 12:
            break
    if not samples:
        samples = [{"note": "no case was run"}]
    ev = {
        "property_id": prop,
        "tier": tier,
        "seed": seed,
        "level": "proof",
        "coverage": {
            "obligations": max(info.get("obligations", 0), 1),
            "discharged": info.get("discharged", 0),
            "checker_cmd": f"cd lean && lake build Hifi.Props.{prop} && lake env lean .audit/{prop}.lean  # #print axioms of every theorem",
            "trusted_base": cfg.get("trusted_base", []) + [
                "Lean 4.33 kernel; axioms allowed: propext, Classical.choice, Quot.sound (audited per theorem)",
                "hand-written Lean model of the Rust code, tied to /repo by generated constants and by the executed correspondence below",
                "tools/gen_tables.py, harness (hv), tools/decide.py",
            ],
            "theorems": info.get("theorems", []),
            "axioms_used": info.get("axioms_used", []),
            "proof_ok": info.get("proof_ok", False),
            "leanchecker_rc": info.get("leanchecker_rc", "not run (quick tier)"),
            "unproved_or_errors": info.get("failing", []),
            "generated_tables": info.get("gen", {}),
            "evaluations": len(rows),
            "distinct_nontrivial": len(distinct),
            "rule": cfg.get("rule", "inputs from the structural lattice of DESIGN §4.2; distinct input lines whose model branch tag is not a trivial one"),
            "samples": samples,
            "traces_validated_against_impl": agree,
            "impl_equals_model": agree + sum(len(v) for v in known.values()),
            "tie_breaks": len(ties),
            "spec_only_cases_model_silent": unmodelled[0],
            "violating_cases": len(viol),
            "known_finding_cases": {k: len(v) for k, v in known.items()},
            "finding_not_reproduced": len(notrep),
            "branch_histogram": dict(sorted(hist.items(), key=lambda kv: -kv[1])[:80]),
            "impl_outcomes": outcomes,
            "timings_s": {k: v for k, v in info.items() if k.startswith("t_")},
            **extra,
        },
        "assumptions": cfg.get("assumptions", []),
        "wall_s": round(time.time() - t_start, 1),
        "violations": nviol,
    }
    os.makedirs(os.path.join(VERIF, "evidence"), exist_ok=True)
    with open(os.path.join(VERIF, "evidence", prop + ".json"), "w") as f:
        json.dump(ev, f, indent=1)


if __name__ == "__main__":
    main()
