#!/bin/bash
# try_seeded.sh <worktree-dir-name under /tmp/mut> <property>  : run the property's check against a seeded worktree
W=/tmp/mut/$1; P=$2
mv $W/tests/seeded_demo.rs $W/seeded_demo_moved.rs 2>/dev/null
cd /verif
VERIF_REPO=$W ./check $P quick 2>&1 | grep -E "VIOLATION|^OK" | cut -c1-160 | head -4
python3 - <<PY
import json,glob
for f in sorted(glob.glob('/verif/replays/$P-*.json'))[:3]:
    d=json.load(open(f)); c=(d.get('cases') or [{}])[0]
    print(d.get('why'),'|',c.get('input'),'| impl',str(c.get('impl'))[:60],'| model',str(c.get('model'))[:60],'|',c.get('spec'),c.get('branch'))
e=json.load(open('/verif/evidence/$P.json')); print('violating_cases',e['coverage'].get('violating_cases'),'ties',e['coverage'].get('tie_breaks'))
PY
