#!/bin/bash
# confirm_seeded.sh <worktree name under /tmp/mut> : confirm a seeded change independently of its author:
#   suite green with the change (109 tests + 40 doctests), demo fails with it, demo passes without it.
W=/tmp/mut/$1
cd $W || exit 2
[ -f seeded_demo_moved.rs ] && mv seeded_demo_moved.rs tests/seeded_demo.rs
git apply -R --check patch.diff 2>/dev/null || { echo "patch not applied in worktree"; exit 2; }
mv tests/seeded_demo.rs seeded_demo_moved.rs
S=$(cargo test --workspace --no-fail-fast --offline 2>&1 | awk '/^test result/ {p+=$4; f+=$6} /^error/ {e=1} END {print "passed=" p+0 " failed=" f+0 (e ? " build-error" : "")}')
mv seeded_demo_moved.rs tests/seeded_demo.rs
A=$(cargo test --offline --test seeded_demo 2>&1 | awk '/^test result/ {print "demo-with: passed=" $4 " failed=" $6}')
git apply -R patch.diff
B=$(cargo test --offline --test seeded_demo 2>&1 | awk '/^test result/ {print "demo-without: passed=" $4 " failed=" $6}')
git apply patch.diff
mv tests/seeded_demo.rs seeded_demo_moved.rs
echo "suite-with: $S | $A | $B"
